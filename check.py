#!/usr/bin/env python3
"""Driver for the libsndfile runtime monitors.

  check.py <Cxx> [--tier quick|thorough]   build from /repo's working tree, run the monitor(s), triage, write evidence
  check.py setup                           configure + build all library variants and compile every monitor
  check.py replay <file>                   re-run one recorded case verbosely
  check.py baseline-off                    repo test-suite with the hook guard off

Exit: 0 held on everything explored (KNOWN-FINDING lines allowed), 1 VIOLATION, 2 harness failure / inconclusive.
"""
import sys, os, resource, json, subprocess, time, fcntl, re, hashlib, fnmatch, shutil, tempfile, threading

VERIF = os.path.dirname(os.path.abspath(__file__))
REPO = os.environ.get('VERIF_REPO', '/repo')
BUILD = os.path.join(VERIF, '.build')
NCPU = int(os.environ.get('VERIF_JOBS', '16'))
GUARD = 'LIBSNDFILE_VERIF'

UBSAN = ('bounds,integer-divide-by-zero,null,return,unreachable,vla-bound,object-size,'
         'pointer-overflow,nonnull-attribute,bool,enum')
# UBSan stays in its default recoverable mode: a report is printed (and turned into a violation keyed by file/function/message from stderr) and the
# process goes on, so that the case is attributed by the following crash record or by the end-of-shard record.  With -fno-sanitize-recover gcc's
# libubsan ends the process with exit code 1 without running the ASan death callback, and the running case would be lost.
SANFLAGS = '-fsanitize=address,' + UBSAN
VARIANTS = {
    # name: (compiler, cflags for the library, cflags for monitors)
    'asan':  ('gcc', '-O1 -g -fno-omit-frame-pointer ' + SANFLAGS + ' -D' + GUARD,
              '-O1 -g -fno-omit-frame-pointer ' + SANFLAGS),
    'fast':  ('gcc', '-O2 -g -D' + GUARD, '-O2 -g'),
    'nosse': ('gcc', '-O2 -g -U__SSE2__ -D' + GUARD, '-O2 -g'),
    'vg':    ('gcc', '-O1 -g -fno-omit-frame-pointer -D' + GUARD, '-O1 -g -fno-omit-frame-pointer -DVH_VALGRIND'),   # run under valgrind memcheck
}
CMAKE_OFF = ['-DBUILD_TESTING=OFF', '-DBUILD_PROGRAMS=OFF', '-DBUILD_EXAMPLES=OFF', '-DBUILD_REGTEST=OFF',
             '-DENABLE_CPACK=OFF', '-DENABLE_PACKAGE_CONFIG=OFF', '-DENABLE_EXTERNAL_LIBS=OFF', '-DENABLE_MPEG=OFF',
             '-DBUILD_SHARED_LIBS=OFF']

ASAN_OPTIONS = ('abort_on_error=0:halt_on_error=1:detect_leaks=0:allocator_may_return_null=1:'
                'detect_stack_use_after_return=1:strict_string_checks=1:exitcode=99:max_allocation_size_mb=3000:'
                'malloc_context_size=12:quarantine_size_mb=16')
UBSAN_OPTIONS = 'print_stacktrace=1:halt_on_error=0'

sys.path.insert(0, VERIF)
from registry import PROPS  # noqa: E402  (per-property configuration)


def log(*a):
    print(*a, file=sys.stderr, flush=True)


def sh(cmd, **kw):
    return subprocess.run(cmd, **kw)


# ------------------------------------------------------------------ builds
class Lock:
    def __init__(self, name):
        os.makedirs(BUILD, exist_ok=True)
        self.path = os.path.join(BUILD, name + '.lock')

    def __enter__(self):
        self.f = open(self.path, 'w')
        fcntl.flock(self.f, fcntl.LOCK_EX)

    def __exit__(self, *a):
        fcntl.flock(self.f, fcntl.LOCK_UN)
        self.f.close()


def build_variant(v):
    """Incremental out-of-tree build of libsndfile.a for variant v from REPO's working tree."""
    cc, cflags, _ = VARIANTS[v]
    d = os.path.join(BUILD, v)
    with Lock('lib-' + v):
        if not os.path.exists(os.path.join(d, 'build.ninja')):
            r = sh(['cmake', '-G', 'Ninja', '-S', REPO, '-B', d, '-DCMAKE_BUILD_TYPE=None', '-DCMAKE_C_COMPILER=' + cc,
                    '-DCMAKE_C_FLAGS=' + cflags] + CMAKE_OFF, stdout=subprocess.PIPE, stderr=subprocess.STDOUT, text=True)
            if r.returncode:
                log(r.stdout[-3000:])
                raise SystemExit(2)
        r = sh(['ninja', '-C', d, 'sndfile'], stdout=subprocess.PIPE, stderr=subprocess.STDOUT, text=True)
        if r.returncode:
            log(r.stdout[-4000:])
            log('HARNESS: library build failed for variant', v)
            raise SystemExit(2)
    return os.path.join(d, 'libsndfile.a')


def build_monitor(src, v, ldflags=''):
    cc, _, mflags = VARIANTS[v]
    lib = build_variant(v)
    outd = os.path.join(BUILD, 'mon', v)
    os.makedirs(outd, exist_ok=True)
    exe = os.path.join(outd, os.path.splitext(os.path.basename(src))[0])
    srcp = os.path.join(VERIF, 'monitors', src)
    with Lock('mon-' + v + '-' + os.path.basename(exe)):
        deps = [srcp, lib, os.path.join(VERIF, 'harness', 'vh.h')] + \
               [os.path.join(VERIF, 'harness', f) for f in os.listdir(os.path.join(VERIF, 'harness'))]
        if os.path.exists(exe) and all(os.path.getmtime(exe) >= os.path.getmtime(p) for p in deps):
            return exe
        cmd = [cc] + mflags.split() + ['-Wall', '-Wno-unused-function', '-Wno-unused-variable', '-Wno-misleading-indentation',
               '-I' + os.path.join(REPO, 'include'), '-I' + os.path.join(BUILD, v, 'include'),
               '-I' + os.path.join(VERIF, 'harness'), '-D' + GUARD, srcp, lib, '-lm', '-o', exe + '.tmp'] + ldflags.split()
        r = sh(cmd, stdout=subprocess.PIPE, stderr=subprocess.STDOUT, text=True)
        if r.returncode:
            log(r.stdout[-6000:])
            log('HARNESS: monitor build failed:', src)
            raise SystemExit(2)
        os.replace(exe + '.tmp', exe)
    return exe


# ------------------------------------------------------------------ sanitizer report parsing
FRAME = re.compile(r'^\s*#(\d+) 0x[0-9a-f]+ in (\S+) (\S+)')
UBLINE = re.compile(r'^(\S+?):(\d+):(\d+): runtime error: (.*)$')


def load_ubsan_ignore():
    p = os.path.join(VERIF, 'ubsan_ignore.txt')
    out = []
    if os.path.exists(p):
        for l in open(p):
            l = l.strip()
            if l and not l.startswith('#'):
                out.append(l)
    return out


def parse_sanitizer(text):
    """-> (asan_signature or None, [ubsan keys])"""
    sig = None
    lines = text.splitlines()
    for i, l in enumerate(lines):
        m = re.search(r'ERROR: (AddressSanitizer|LeakSanitizer|UndefinedBehaviorSanitizer): (.*)', l)
        if m and sig is None:
            kind = m.group(2).split(' on ')[0].split(' (')[0].strip()
            kind = re.sub(r'0x[0-9a-f]+', '', kind).strip()
            kind = kind.split(':')[0] if kind.startswith('requested allocation') else kind
            frames = []
            for l2 in lines[i + 1:i + 60]:
                fm = FRAME.match(l2)
                if fm:
                    fn, loc = fm.group(2), fm.group(3)
                    if '/src/' in loc and REPO in loc or loc.startswith(REPO):
                        frames.append(fn)
                elif frames and not l2.strip():
                    break
            sig = kind.replace(' ', '-') + '|' + '<'.join(frames[:3])
    ub = []
    ign = load_ubsan_ignore()
    for i, l in enumerate(lines):
        m = UBLINE.match(l)
        if m:
            f = os.path.basename(m.group(1))
            msg = re.sub(r'-?\d+', 'N', m.group(4))
            msg = re.sub(r"'[^']*'", 'T', msg)
            fn = ''
            for l2 in lines[i + 1:i + 4]:
                fm = FRAME.match(l2)
                if fm:
                    fn = fm.group(2)
                    break
            key = 'ubsan|%s|%s|%s' % (f, fn, msg.replace(' ', '-'))
            if any(fnmatch.fnmatch(key, pat) for pat in ign):
                continue
            ub.append(key)
    return sig, sorted(set(ub))


KEYRE = re.compile(r'^C\d\d\|[a-z][A-Za-z0-9_+.:()-]*(\||$)')
VGHEAD = re.compile(r'^==\d+== (?!   )(\S.*)$')
VGFRAME = re.compile(r'^==\d+==    (?:at|by) 0x[0-9A-Fa-f]+: (\S+) \((?:in )?([^)]*)\)')
VGMARK = re.compile(r'^\*\*\d+\*\* VH-CASE (\d+) ?(.*)$')


def parse_memcheck(text):
    """valgrind log -> [(case, desc, signature, block text)]; error blocks are attributed to the next VH-CASE marker"""
    out, pending = [], []
    cur = None
    for l in text.splitlines():
        m = VGMARK.match(l)
        if m:
            if cur:
                pending.append(cur)
                cur = None
            for b in pending:
                out.append((int(m.group(1)), m.group(2), b['sig'](), '\n'.join(b['lines'][:14])))
            pending = []
            continue
        h = VGHEAD.match(l)
        if h:
            txt = h.group(1)
            if re.match(r'(Conditional jump|Use of uninitialised|Invalid (read|write|free)|Syscall param|Source and destination overlap|Mismatched free|Argument .* of function)', txt):
                if cur:
                    pending.append(cur)
                kind = re.sub(r'\d+', 'N', txt.split(' points to')[0]).replace(' ', '-')[:60]
                cur = {'kind': kind, 'frames': [], 'hframes': [], 'lines': [l.split('== ', 1)[-1]]}
                cur['sig'] = (lambda c=cur: c['kind'] + '|' + ('<'.join(c['frames'][:3]) if c['frames'] else 'harness:' + '<'.join(c['hframes'][:2])))
            elif cur is not None:
                cur['lines'].append(txt)
            continue
        f = VGFRAME.match(l)
        if f and cur is not None:
            fn, loc = f.group(1), f.group(2)
            cur['lines'].append(l.split('== ', 1)[-1].strip())
            srcf = loc.split(':')[0]
            if os.path.exists(os.path.join(REPO, 'src', srcf)) or any(os.path.exists(os.path.join(REPO, 'src', d, srcf)) for d in ('ALAC', 'GSM610', 'G72x')):
                cur['frames'].append(fn)
            elif len(cur['frames']) == 0:
                cur['hframes'].append(fn)
    if cur:
        pending.append(cur)
    for b in pending:
        out.append((-1, '', b['sig'](), '\n'.join(b['lines'][:14])))
    return out


# ------------------------------------------------------------------ running shards
class Agg:
    def __init__(self):
        self.viol = {}       # key -> dict(count, first witness)
        self.stats = {}
        self.samples = []
        self.notes = []
        self.cases = 0
        self.hashes = set()
        self.lock = threading.Lock()
        self.fail = []       # harness failures / inconclusive reasons
        self.enumerated = 0

    def add_viol(self, key, w):
        with self.lock:
            v = self.viol.setdefault(key, {'count': 0, 'first': w})
            v['count'] += 1


def run_shard(agg, exe, variant, shard, nshards, tier, seed, extra, scratch, env, timeout, only=None, tool=None):
    start = 0
    restarts = 0
    hang_retry = {}
    while True:
        outp = os.path.join(scratch, 'out.%s.%s%s.%d.%d' % (os.path.basename(exe), variant, '-' + tool if tool else '', shard, restarts))    # the variant is part of the name: two runs of one monitor (asan and vg) share the scratch directory
        errp = outp + '.err'
        cmd = [exe, '--out', outp, '--shard', '%d/%d' % (shard, nshards), '--tier', tier, '--seed', str(seed),
               '--from', str(start)] + extra
        if only is not None:
            cmd += ['--only', str(only)]
        vglog = outp + '.vg'
        if tool == 'memcheck':
            cmd = ['valgrind', '--tool=memcheck', '-q', '--error-exitcode=0', '--error-limit=no', '--leak-check=no', '--num-callers=14',
                   '--undef-value-errors=yes', '--track-origins=no', '--log-file=' + vglog] + cmd
        t0 = time.time()
        with open(errp, 'w') as ef:
            try:
                # no monitor process may write a file larger than 256 MB (a library loop that makes the sanitizer print a warning per iteration
                # once filled the disk with 26 GB of stderr and the driver's memory with it): beyond that the process gets SIGXFSZ, which is
                # reported like any other crash of the running case
                p = subprocess.run(cmd, stdout=subprocess.DEVNULL, stderr=ef, env=env, timeout=timeout, cwd=scratch,
                                   preexec_fn=lambda: resource.setrlimit(resource.RLIMIT_FSIZE, (256 << 20, 256 << 20)))
                rc = p.returncode
            except subprocess.TimeoutExpired:
                rc = -999
        crash = None
        done = False
        last = -1
        if os.path.exists(outp):
            for line in open(outp, errors='replace'):
                try:
                    e = json.loads(line)
                except Exception:
                    continue
                t = e.get('t')
                if t == 'viol' and ('key' not in e or 'case' not in e or not KEYRE.match(str(e['key']))):
                    with agg.lock:
                        agg.stats['malformed_event_records_ignored'] = agg.stats.get('malformed_event_records_ignored', 0) + 1
                    continue        # a record cut short or damaged (seen once in 35 million histories): counted in the evidence, not judged
                if t == 'viol':
                    agg.add_viol(e['key'], {'monitor': os.path.basename(exe), 'variant': variant, 'case': e['case'], 'desc': e.get('desc', ''),
                                            'witness': e.get('w', ''), 'tier': tier, 'seed': seed, 'extra': extra})
                elif t == 'stat':
                    with agg.lock:
                        agg.stats[e['k']] = agg.stats.get(e['k'], 0) + e['n']
                elif t == 'sample':
                    with agg.lock:
                        if len(agg.samples) < 10:
                            agg.samples.append({'case': e['case'], 'detail': e['d']})
                elif t == 'note':
                    with agg.lock:
                        if len(agg.notes) < 40 and e['d'] not in agg.notes:
                            agg.notes.append(e['d'])
                elif t == 'part':
                    with agg.lock:
                        agg.cases += e['cases']
                    last = max(last, e.get('last', -1))
                elif t == 'hashes':
                    with agg.lock:
                        agg.hashes.update(e['h'])
                elif t in ('crash', 'hang'):
                    crash = e
                elif t == 'done':
                    done = True
                    with agg.lock:
                        agg.enumerated = max(agg.enumerated, e.get('enumerated', 0))
        errtxt = open(errp, errors='replace').read(64 << 20) if os.path.exists(errp) else ''    # never more than 64 MB of it
        sig, ub = parse_sanitizer(errtxt)
        prop = extra_prop(extra)
        if tool == 'memcheck' and os.path.exists(vglog):
            for (vc, vdesc, vsig, vtxt) in parse_memcheck(open(vglog, errors='replace').read()):
                agg.add_viol('%s|memcheck|%s' % (prop, vsig), {'monitor': os.path.basename(exe), 'variant': variant, 'case': vc, 'desc': vdesc,
                                                               'witness': vtxt[:1500], 'tier': tier, 'seed': seed, 'extra': extra, 'tool': 'memcheck'})
        for k in ub:
            agg.add_viol('%s|%s' % (prop, k), {'monitor': os.path.basename(exe), 'variant': variant, 'case': crash['case'] if crash else -1,
                                          'desc': 'UBSan report on stderr', 'witness': k, 'tier': tier, 'seed': seed, 'extra': extra})
        if done and rc == 0:
            return
        if crash is not None and crash.get('case', -1) >= 0:
            c = crash['case']
            if crash['t'] == 'hang':
                if crash.get('kind') == 'wall' and hang_retry.get(c, 0) == 0 and only is None:
                    # wall-clock watchdog: must fire twice on the same case before it counts
                    hang_retry[c] = 1
                    start = c
                    restarts += 1
                    continue
                key = '%s|hang|%s|%s' % (prop, crash.get('kind', 'wall'), hang_site(crash.get('desc', '')))
                w = 'no return within the %s budget' % crash.get('kind')
            else:
                key = '%s|crash|%s' % (prop, sig or ('exit-%s' % rc))
                w = tail_report(errtxt)
            agg.add_viol(key, {'monitor': os.path.basename(exe), 'variant': variant, 'case': c, 'desc': crash.get('desc', ''),
                               'witness': w, 'tier': tier, 'seed': seed, 'extra': extra})
            if only is not None:
                return
            start = c + 1
            restarts += 1
            if restarts > 400:
                agg.fail.append('shard %d of %s: more than 400 crashes' % (shard, os.path.basename(exe)))
                return
            continue
        # no attributable case
        if rc == -999:
            agg.fail.append('shard %d of %s: wall-clock watchdog (%ds) fired: inconclusive' % (shard, os.path.basename(exe), timeout))
        else:
            agg.fail.append('shard %d of %s exited %s without a case record: %s' % (shard, os.path.basename(exe), rc, errtxt[-1500:]))
        return


def extra_prop(extra):
    return CURRENT_PROP


def hang_site(desc):
    # first token of the case description names the format/workload; keep it short and stable
    return desc.split(' ')[0] if desc else '?'


def tail_report(txt):
    ls = [l for l in txt.splitlines() if l.strip()]
    for i, l in enumerate(ls):
        if 'ERROR: ' in l and 'Sanitizer' in l:
            ls = ls[i:]
            break
    keep = []
    for l in ls:
        if 'ERROR:' in l or FRAME.match(l) or 'runtime error' in l:
            keep.append(l.strip())
        if len(keep) >= 12:
            break
    return '\n'.join(keep)[:1800]


CURRENT_PROP = 'C00'


def load_known():
    p = os.path.join(VERIF, 'known_findings.json')
    if not os.path.exists(p):
        return []
    return json.load(open(p)).get('findings', [])


def run_property(prop, tier, seed, only=None, only_mon=None, verbose=False):
    global CURRENT_PROP
    CURRENT_PROP = prop
    cfg = PROPS[prop]
    t0 = time.time()
    agg = Agg()
    scratch = tempfile.mkdtemp(prefix='vp-%s-' % prop, dir=os.environ.get('VERIF_SCRATCH', BUILD if os.path.isdir(BUILD) else None))
    try:
        runs = []
        for r in cfg['runs']:
            if tier == 'quick' and r.get('thorough_only'):
                continue
            if only_mon and r['src'] != only_mon:
                continue
            exe = build_monitor(r['src'], r.get('variant', 'asan'), r.get('ldflags', ''))
            runs.append((r, exe))
        env = dict(os.environ)
        env['ASAN_OPTIONS'] = ASAN_OPTIONS + (':' + cfg['asan_extra'] if cfg.get('asan_extra') else '')
        env['UBSAN_OPTIONS'] = UBSAN_OPTIONS
        env['TMPDIR'] = os.path.join(scratch, 'tmp')
        env['VERIF_SCRATCH_DIR'] = scratch
        os.makedirs(env['TMPDIR'], exist_ok=True)
        threads = []
        timeout = cfg.get('timeout', {}).get(tier, 3000 if tier == 'quick' else 14000)
        for r, exe in runs:
            ns = 1 if only is not None else r.get('shards', NCPU)
            for s in range(ns):
                extra = list(r.get('args_' + tier, r.get('args', [])))
                if verbose or only is not None:
                    extra.append('--verbose')
                th = threading.Thread(target=run_shard, args=(agg, exe, r.get('variant', 'asan'), s, ns, tier, seed, extra, scratch, env, timeout, only, r.get('tool')))
                threads.append(th)
        # at most NCPU processes at a time
        running = []
        for th in threads:
            while len([t for t in running if t.is_alive()]) >= NCPU:
                time.sleep(0.05)
            th.start()
            running.append(th)
        for th in running:
            th.join()
    finally:
        if os.environ.get('VERIF_KEEP'):
            log('scratch kept:', scratch)
        else:
            shutil.rmtree(scratch, ignore_errors=True)
    wall = time.time() - t0

    # ---- triage
    known = [k for k in load_known() if k.get('property') == prop]
    known_hit, unknown = {}, {}
    for key, v in agg.viol.items():
        hit = None
        for k in known:
            if k.get('status') == 'known' and (k['key'] == key or fnmatch.fnmatchcase(key, k['key'])):
                hit = k
                break
        if hit:
            known_hit.setdefault(hit['key'], {'what': hit.get('what', ''), 'count': 0, 'keys': []})
            known_hit[hit['key']]['count'] += v['count']
            known_hit[hit['key']]['keys'].append(key)
        else:
            unknown[key] = v
    for k, v in sorted(known_hit.items()):
        print('KNOWN-FINDING: property=%s %s (%s; observed %d times this run)' % (prop, k, v['what'], v['count']))
    os.makedirs(os.path.join(VERIF, 'replays'), exist_ok=True)
    for key, v in sorted(unknown.items()):
        h = hashlib.sha1(key.encode()).hexdigest()[:10]
        path = os.path.join(VERIF, 'replays', '%s-%s.json' % (prop, h))
        json.dump({'property': prop, 'key': key, 'count': v['count'], **v['first']}, open(path, 'w'), indent=1)
        print('VIOLATION property=%s replay=%s key=%s' % (prop, path, key))
        log('  witness:', str(v['first'].get('desc'))[:300], '|', str(v['first'].get('witness'))[:600])

    # ---- evidence
    floor = cfg.get('floor', {}).get(tier, 10)
    inconclusive = list(agg.fail)
    if agg.cases < floor and only is None:
        inconclusive.append('only %d cases observed (floor %d)' % (agg.cases, floor))
    distinct = len(agg.hashes)
    ev = {
        'property_id': prop, 'tier': tier, 'seed': seed, 'level': cfg['level'],
        'coverage': {
            'evaluations': int(agg.cases),
            'distinct_nontrivial': int(distinct),
            'rule': cfg['rule'],
            'samples': agg.samples[:10] if agg.samples else [{'note': 'no sample recorded'}],
            'observed': {k: agg.stats[k] for k in sorted(agg.stats)},
            'cases_enumerated': agg.enumerated,
            'exhaustive': bool(cfg.get('exhaustive', False)),
            'monitors': [r['src'] + '@' + r.get('variant', 'asan') for r, _ in runs],
            'known_findings_observed': {k: v['count'] for k, v in known_hit.items()},
            'unlisted_violation_keys': sorted(unknown)[:50],
            'inconclusive': inconclusive,
            'notes': agg.notes,
        },
        'assumptions': cfg.get('assumptions', []),
        'wall_s': round(wall, 2),
        'violations': len(unknown),
    }
    if only is None and not only_mon and not os.environ.get('VERIF_NO_EVIDENCE'):
        os.makedirs(os.path.join(VERIF, 'evidence'), exist_ok=True)
        json.dump(ev, open(os.path.join(VERIF, 'evidence', prop + '.json'), 'w'), indent=1)
    log('%s %s: %d cases, %d distinct, %d unlisted violation keys, %d known findings, %.1fs' %
        (prop, tier, agg.cases, distinct, len(unknown), len(known_hit), wall))
    if unknown:
        return 1
    if inconclusive:
        for r in inconclusive:
            log('INCONCLUSIVE:', r)
        return 2
    return 0


def main():
    a = sys.argv[1:]
    if not a:
        print(__doc__)
        return 2
    tier = os.environ.get('VERIF_TIER', 'quick')
    seed = int(os.environ.get('VERIF_SEED', '0') or 0)
    if '--tier' in a:
        i = a.index('--tier')
        tier = a[i + 1]
        del a[i:i + 2]
    if '--seed' in a:
        i = a.index('--seed')
        seed = int(a[i + 1])
        del a[i:i + 2]
    only_mon = None
    if '--mon' in a:
        i = a.index('--mon')
        only_mon = a[i + 1]
        del a[i:i + 2]
    verbose = '--verbose' in a
    if verbose:
        a.remove('--verbose')
    cmd = a[0]
    if cmd == 'setup':
        for v in VARIANTS:
            build_variant(v)
        for p, cfg in PROPS.items():
            for r in cfg['runs']:
                build_monitor(r['src'], r.get('variant', 'asan'), r.get('ldflags', ''))
        print('setup ok')
        return 0
    if cmd == 'baseline-off':
        d = os.path.join(REPO, '_build')
        if not os.path.exists(os.path.join(d, 'build.ninja')):
            sh(['cmake', '-G', 'Ninja', '-S', REPO, '-B', d, '-DCMAKE_BUILD_TYPE=RelWithDebInfo'], check=True)
        sh(['cmake', '--build', d], check=True)
        return sh(['ctest', '--test-dir', d, '-j8', '--timeout', '900']).returncode
    if cmd == 'replay':
        r = json.load(open(a[1]))
        log('replaying', r['key'], 'case', r['case'], 'monitor', r['monitor'])
        src = r['monitor'] + '.c'
        return run_property(r['property'], r.get('tier', 'quick'), r.get('seed', 0), only=r['case'], only_mon=src)
    if cmd == 'all':
        rc = 0
        for p in sorted(PROPS):
            rc = max(rc, run_property(p, tier, seed))
        return rc
    if cmd in PROPS:
        return run_property(cmd, tier, seed, only_mon=only_mon, verbose=verbose)
    print('unknown command', cmd)
    return 2


if __name__ == '__main__':
    sys.exit(main())
