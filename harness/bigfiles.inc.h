/* bigfiles.inc.h — files that cross the 2 GiB / 4 GiB / 2^31- and 2^32-frame boundaries, through the real write path.
** Included by c04_big_files.c (BIG_C11 = 0: write, close, re-open) and c11_big_files.c (BIG_C11 = 1: header updates, crash points).
**
** Every byte is handed to the library's write calls; the sparse virtual-I/O store (sparse.h) only keeps the pages that are not
** all zero.  A file is: island 0 (frames 0..) | zero run | island around file offset 2^31 | zero run | island around file offset
** 2^32 | zero run | tail island.  Islands are written with the typed calls in small pieces (each piece boundary is a crash point
** for C11), zero runs with sf_write_raw or - where the encoding maps 0 to zero bytes - typed calls, 32 MiB at a time.
** Expected read-back of an island comes from a small reference file of the same format holding only that island.
*/
#include "vh.h"
#include "sparse.h"
#ifndef BIG_C06
#define BIG_C06 0
#endif
#define BIG_PROP (BIG_C06 ? "C06" : BIG_C11 ? "C11" : "C04")

#define ZBUF_BYTES	(32u << 20)
static unsigned char *zbuf ;

typedef struct { sf_count_t start, len ; short *exp ; /* decoded [start-PADF, start+len+PADF) from the reference file */ } ISLAND ;
#define PADF 16
#define MAXISL 6

static short isl_val (sf_count_t i, int c) { return (short) ((long) ((i * 37 + c * 1013 + 7) % 20011) - 10005) ; }

/* 2: the container can describe > 4 GiB of audio (64-bit size fields, or no size field at all); 1: only the 2 GiB crossing is judged */
static int big_capable (int major)
{	switch (major)
	{	case SF_FORMAT_RF64 : case SF_FORMAT_W64 : case SF_FORMAT_CAF : case SF_FORMAT_AU :
		case SF_FORMAT_IRCAM : case SF_FORMAT_PVF : case SF_FORMAT_PAF : case SF_FORMAT_NIST : return 2 ;
		case SF_FORMAT_SD2 : case SF_FORMAT_RAW : return 0 ; }
	return 1 ;		/* 32-bit size fields: judged only up to the 2 GiB crossing (file of about 2.04 GiB) */
}

static int zero_is_zero_bytes (int format)
{	switch (format & SF_FORMAT_SUBMASK) { case SF_FORMAT_PCM_S8 : case SF_FORMAT_PCM_16 : case SF_FORMAT_PCM_24 : case SF_FORMAT_PCM_32 : case SF_FORMAT_FLOAT : case SF_FORMAT_DOUBLE : return 1 ; }
	return 0 ; }

static int make_island (ISLAND *is, int format, int ch, int rate, int bw, short *zref)
{	MEMF m ; SNDFILE *s ; SF_INFO ri ; long n = (long) is->len, i ; int c ; short *d = malloc ((size_t) n * ch * 2) ; sf_count_t g ;
	for (i = 0 ; i < n ; i++) for (c = 0 ; c < ch ; c++) d [i * ch + c] = isl_val (is->start + i, c) ;
	memset (&m, 0, sizeof (m)) ; s = vh_open_w (&m, format, ch, rate, NULL) ; if (!s) { free (d) ; return 0 ; }
	sf_write_raw (s, zbuf, (sf_count_t) PADF * bw) ; sf_writef_short (s, d, n) ; sf_write_raw (s, zbuf, (sf_count_t) PADF * bw) ; sf_close (s) ; free (d) ;
	s = vh_open_r (&m, format, ch, rate, &ri) ; if (!s) { mv_free (&m) ; return 0 ; }
	is->exp = calloc ((size_t) (n + 2 * PADF + 2) * ch, 2) ; g = sf_readf_short (s, is->exp, n + 2 * PADF) ; sf_close (s) ; mv_free (&m) ;
	if (g < n + 2 * PADF) { free (is->exp) ; is->exp = NULL ; return 0 ; }
	for (c = 0 ; c < ch ; c++) zref [c] = is->exp [c] ;
	return 1 ;
}

/* expected value of frame i (channel c) of the big file */
static short expect_at (ISLAND *isl, int nisl, sf_count_t i, int c, int ch, const short *zref)
{	int k ; for (k = 0 ; k < nisl ; k++) if (i >= isl [k].start && i < isl [k].start + isl [k].len) return isl [k].exp [(PADF + (i - isl [k].start)) * ch + c] ;
	return zref [c] ; }

/* parse one image (finished file or crash-point snapshot); n = frames handed to the library so far */
static int check_image (SPF *img, int format, int ch, int rate, int bw, sf_count_t n, ISLAND *isl, int nisl, const short *zref, const char *what, const char *fn, const char *mname, int deep, int downgrade)
{	SF_INFO ri ; SNDFILE *r ; sf_count_t F ; int k, bad = 0 ; short *buf ; const char *P = BIG_PROP ;
	memset (&ri, 0, sizeof (ri)) ; img->pos = 0 ; r = sf_open_virtual (&SPVIO, SFM_READ, &ri, img) ;
	if (!r) { vh_viol (vh_key ("%s|big-unreadable|%s|%s|%s", P, fn, mname, n > 0xffffffffLL / bw ? "over-4GiB" : n > 0x7fffffffLL / bw ? "over-2GiB" : "small"), "ch=%d %s after %lld frames (%lld bytes): cannot be opened: %s", ch, what, (long long) n, (long long) img->len, sf_strerror (NULL)) ; return 1 ; }
	F = ri.frames ;
	/* SFC_RF64_AUTO_DOWNGRADE: a file that stayed below 4 GiB is, by design, a RIFF/WAVE (extensible) file */
	if (downgrade && img->len < 0xffffffffLL && (ri.format & SF_FORMAT_TYPEMASK) == SF_FORMAT_WAVEX) { ri.format = (ri.format & ~SF_FORMAT_TYPEMASK) | SF_FORMAT_RF64 ; vh_stat ("downgraded_images_seen", 1) ; }
	else if (downgrade) vh_stat ("rf64_images_seen_with_downgrade_on", 1) ;
	if (ri.channels != ch || (ri.format & (SF_FORMAT_TYPEMASK | SF_FORMAT_SUBMASK)) != (format & (SF_FORMAT_TYPEMASK | SF_FORMAT_SUBMASK)) || ri.samplerate != rate)
	{	vh_viol (vh_key ("%s|big-parameters|%s|%s", P, fn, mname), "%s after %lld frames: channels %d format 0x%x rate %d", what, (long long) n, ri.channels, ri.format, ri.samplerate) ; bad = 1 ; }
	if (!(F == n || (F == n + 1 && (n & 1) && bw == 1)))
	{	vh_viol (vh_key ("%s|big-frames|%s|%s|%s", P, fn, mname, n > 0xffffffffLL / bw ? "over-4GiB" : n > 0x7fffffffLL / bw ? "over-2GiB" : "small"), "ch=%d %s: %lld frames written (%lld bytes in the store), the reader reports %lld", ch, what, (long long) n, (long long) img->len, (long long) F) ;
		sf_close (r) ; return 1 ; }
	buf = malloc ((size_t) (20000 + 4 * PADF) * ch * 2) ;
	for (k = 0 ; k < nisl && !bad ; k++)
	{	sf_count_t a = isl [k].start - PADF, b = isl [k].start + isl [k].len + PADF, g, i, pos ; int c ;
		if (a < 0) a = 0 ; if (a >= F) continue ; if (b > F) b = F ;
		pos = sf_seek (r, a, SEEK_SET) ;
		if (pos != a) { vh_viol (vh_key ("%s|big-seek|%s|%s", P, fn, mname), "%s: sf_seek(%lld) returned %lld (frames %lld): %s", what, (long long) a, (long long) pos, (long long) F, sf_strerror (r)) ; bad = 1 ; break ; }
		g = sf_readf_short (r, buf, b - a) ;
		if (g != b - a) { vh_viol (vh_key ("%s|big-short-read|%s|%s", P, fn, mname), "%s: reading %lld frames at %lld of %lld delivered %lld", what, (long long) (b - a), (long long) a, (long long) F, (long long) g) ; bad = 1 ; break ; }
		for (i = 0 ; i < g && !bad ; i++) for (c = 0 ; c < ch ; c++)
		{	short e = (a + i >= n) ? buf [i * ch + c] /* pad frame: unspecified */ : expect_at (isl, nisl, a + i, c, ch, zref) ;
			if (buf [i * ch + c] != e)
			{	vh_viol (vh_key ("%s|big-data|%s|%s|island%d", P, fn, mname, k), "ch=%d %s (%lld frames): frame %lld channel %d reads %d, written %d (island %d starts at frame %lld, file offset about %lld)", ch, what, (long long) n, (long long) (a + i), c, buf [i * ch + c], e, k, (long long) isl [k].start, (long long) (isl [k].start * bw)) ; bad = 1 ; break ; } }
		if (!bad) vh_stat ("islands_compared", 1) ;
		}
	if (!bad)	/* the end of the file: a read across it stops exactly there */
	{	sf_count_t a = F > 5 ? F - 5 : 0, g ; sf_seek (r, a, SEEK_SET) ; g = sf_readf_short (r, buf, 40) ;
		if (g != F - a) { vh_viol (vh_key ("%s|big-eof|%s|%s", P, fn, mname), "%s: reading 40 frames at %lld of %lld delivered %lld", what, (long long) a, (long long) F, (long long) g) ; bad = 1 ; }
		else if (sf_readf_short (r, buf, 8) != 0) { vh_viol (vh_key ("%s|big-eof|%s|%s", P, fn, mname), "%s: read after the end delivered data", what) ; bad = 1 ; } }
	if (!bad && deep)	/* the whole file, start to end: exactly F frames then end of file */
	{	sf_count_t tot = 0, g ; unsigned char *big = malloc (ZBUF_BYTES) ; sf_count_t per = (ZBUF_BYTES / bw) * bw ;
		sf_seek (r, 0, SEEK_SET) ;
		if (deep == 1) { while ((g = sf_read_raw (r, big, per)) > 0) tot += g / bw ; }
		else { sf_count_t fr = ZBUF_BYTES / 2 / ch ; while ((g = sf_readf_short (r, (short *) big, fr)) > 0) tot += g ; }
		if (tot != F) { vh_viol (vh_key ("%s|big-read-to-eof|%s|%s", P, fn, mname), "%s: header says %lld frames, reading from the start to the end delivers %lld", what, (long long) F, (long long) tot) ; bad = 1 ; }
		else vh_stat (deep == 1 ? "whole_file_raw_reads" : "whole_file_typed_reads", 1) ;
		free (big) ; }
	free (buf) ; sf_close (r) ;
	if (!bad) vh_stat (BIG_C11 ? "big_snapshots_valid" : "big_files_valid", 1) ;
	return bad ;
}

/* C06 on a big file: seeks with every whence (and the SFM_READ qualifier) to positions in and around the islands, across the 2^31 / 2^32 byte and frame
** boundaries, each followed by a short read that must deliver the frames of that position */
static void big_seek_walk (SPF *img, int format, int ch, int rate, int bw, sf_count_t n, ISLAND *isl, int nisl, const short *zref, const char *fn)
{	SF_INFO ri ; SNDFILE *r ; sf_count_t F, pos = 0 ; int st, c ; short buf [64 * 8] ;
	(void) rate ;
	memset (&ri, 0, sizeof (ri)) ; img->pos = 0 ; r = sf_open_virtual (&SPVIO, SFM_READ, &ri, img) ; if (!r) return ;
	F = ri.frames ; if (F != n && F != n + 1) { sf_close (r) ; return ; }		/* frame-count deviations are C04's business */
	for (st = 0 ; st < (vh_thorough ? 3000 : 400) ; st++)
	{	int k = vh_rint (nisl), wh = vh_rint (6) ; sf_count_t tgt, ret, g, i ; const char *wn ;
		switch (vh_rint (5))
		{	case 0 : tgt = isl [k].start + vh_rint ((int) isl [k].len) ; break ;			/* inside an island */
			case 1 : tgt = isl [k].start - 1 - vh_rint (40) ; break ;						/* just before it */
			case 2 : tgt = isl [k].start + isl [k].len + vh_rint (40) ; break ;				/* just behind it */
			case 3 : tgt = (sf_count_t) (vh_rnd () % (uint64_t) F) ; break ;				/* anywhere */
			default : tgt = F - 1 - vh_rint (30) ; break ;									/* the end */
			}
		if (tgt < 0) tgt = 0 ; if (tgt > F) tgt = F ;
		switch (wh)
		{	case 0 : ret = sf_seek (r, tgt, SEEK_SET) ; wn = "SEEK_SET" ; break ;
			case 1 : ret = sf_seek (r, tgt - pos, SEEK_CUR) ; wn = "SEEK_CUR" ; break ;
			case 2 : ret = sf_seek (r, tgt - F, SEEK_END) ; wn = "SEEK_END" ; break ;
			case 3 : ret = sf_seek (r, tgt, SEEK_SET | SFM_READ) ; wn = "SEEK_SET|SFM_READ" ; break ;
			case 4 : ret = sf_seek (r, tgt - pos, SEEK_CUR | SFM_READ) ; wn = "SEEK_CUR|SFM_READ" ; break ;
			default : ret = sf_seek (r, tgt - F, SEEK_END | SFM_READ) ; wn = "SEEK_END|SFM_READ" ; break ;
			}
		vh_stat ("big_seeks", 1) ;
		if (ret != tgt) { vh_viol (vh_key ("C06|big-seek-return|%s|%s|%s", fn, wn, tgt > 0xffffffffLL ? "frame>2^32" : tgt > 0x7fffffffLL ? "frame>2^31" : tgt * bw > 0xffffffffLL ? "offset>4GiB" : tgt * bw > 0x7fffffffLL ? "offset>2GiB" : "low"), "ch=%d: sf_seek to frame %lld (%s from position %lld, file of %lld frames) returned %lld: %s", ch, (long long) tgt, wn, (long long) pos, (long long) F, (long long) ret, sf_strerror (r)) ; break ; }
		g = sf_readf_short (r, buf, 16) ; pos = tgt + g ;
		if (g != (F - tgt < 16 ? F - tgt : 16)) { vh_viol (vh_key ("C06|big-read-count|%s", fn), "after the seek to frame %lld of %lld a 16-frame read delivered %lld", (long long) tgt, (long long) F, (long long) g) ; break ; }
		for (i = 0 ; i < g ; i++) for (c = 0 ; c < ch ; c++) if (tgt + i < n && buf [i * ch + c] != expect_at (isl, nisl, tgt + i, c, ch, zref))
		{	vh_viol (vh_key ("C06|big-data-after-seek|%s|%s|%s", fn, wn, (tgt + i) * bw > 0xffffffffLL ? "offset>4GiB" : (tgt + i) * bw > 0x7fffffffLL ? "offset>2GiB" : "low"), "ch=%d: after %s to frame %lld, frame %lld channel %d reads %d, written %d", ch, wn, (long long) tgt, (long long) (tgt + i), c, buf [i * ch + c], expect_at (isl, nisl, tgt + i, c, ch, zref)) ; st = 1 << 30 ; i = g ; break ; }
		vh_distinct (vh_fnv (0, &format, 4) ^ ((uint64_t) ch << 33) ^ ((uint64_t) tgt << 3) ^ (uint64_t) wh ^ 0xC06) ;
		}
	sf_close (r) ;
}

/* mode: 0 no updates (C04), 1 SFC_UPDATE_HEADER_NOW after every call, 2 SFC_SET_UPDATE_HEADER_AUTO; opt: RF64 auto-downgrade */
static void big_case (int format, int ch, int rate, int mode, int downgrade, int upto /* 1: 2 GiB, 2: 4 GiB */, int typed_zeros)
{	const char *fn = vh_fname (format) ; int bw = vh_bits (format) / 8 * ch, nisl = 0, k, bad = 0 ; ISLAND isl [MAXISL] ; short zref [8] ; SPF f ; SNDFILE *s ; SF_INFO wi ;
	sf_count_t n = 0, H = 2500 > 7000 / bw ? 2500 : 7000 / bw, T [2] = { (sf_count_t) 1 << 31, (sf_count_t) 1 << 32 }, endf ; char mname [64] ; int t ;
	long ncp = 0 ;
	snprintf (mname, sizeof (mname), "%s%s", mode == 0 ? "close-only" : mode == 1 ? "update-now" : "auto", downgrade ? "+rf64-downgrade" : "") ;
	memset (isl, 0, sizeof (isl)) ;
	isl [nisl].start = 0 ; isl [nisl].len = 3000 ; nisl++ ;
	for (t = 0 ; t < upto ; t++) { isl [nisl].start = T [t] / bw - H ; isl [nisl].len = 2 * H ; nisl++ ; }
	endf = T [upto - 1] / bw + H + (sf_count_t) (40u << 20) / bw + vh_rint (1000) ;
	isl [nisl].start = endf - 1500 ; isl [nisl].len = 1500 ; nisl++ ;
	for (k = 0 ; k < nisl ; k++) if (!make_island (&isl [k], format, ch, rate, bw, zref)) { vh_statf (1, "cannot_make_reference:%s", fn) ; goto out ; }
	sp_init (&f) ; f.budget = 4000000 ;
	memset (&wi, 0, sizeof (wi)) ; wi.format = format ; wi.channels = ch ; wi.samplerate = rate ; wi.frames = vh_rint (2) ? 0 : (sf_count_t) vh_rnd () ;
	s = sf_open_virtual (&SPVIO, SFM_WRITE, &wi, &f) ; if (!s) { vh_statf (1, "cannot_open:%s", fn) ; sp_free (&f) ; goto out ; }
	if (downgrade && sf_command (s, SFC_RF64_AUTO_DOWNGRADE, NULL, SF_TRUE) != SF_TRUE) vh_stat ("downgrade_refused", 1) ;
	if (mode == 2) sf_command (s, SFC_SET_UPDATE_HEADER_AUTO, NULL, SF_TRUE) ;
	for (k = 0 ; k < nisl && !bad ; k++)
	{	/* zero run up to the island */
		while (n < isl [k].start && !bad)
		{	sf_count_t fr = isl [k].start - n, maxfr = ZBUF_BYTES / (typed_zeros ? 4 * ch : bw), w ; if (fr > maxfr) fr = maxfr ;
			if (typed_zeros) w = sf_writef_int (s, (int *) zbuf, fr) ; else w = sf_write_raw (s, zbuf, fr * bw) / bw ;
			if (w != fr) { vh_viol (vh_key ("%s|big-write-failed|%s|%s", BIG_PROP, fn, mname), "zero run: wrote %lld of %lld frames at frame %lld: %s", (long long) w, (long long) fr, (long long) n, sf_strerror (s)) ; bad = 1 ; break ; }
			n += fr ; vh_stat ("zero_run_calls", 1) ;
			if (mode == 1) sf_command (s, SFC_UPDATE_HEADER_NOW, NULL, 0) ;
			}
		if (bad) break ;
		if (mode && n > 0) { SPF snap ; sp_copy (&snap, &f) ; bad |= check_image (&snap, format, ch, rate, bw, n, isl, nisl, zref, "crash point after a zero run", fn, mname, 0, downgrade) ; sp_free (&snap) ; ncp++ ; }
		/* the island, in pieces */
		{	long len = (long) isl [k].len, done = 0, i ; int c ; short *d = malloc ((size_t) len * ch * 2) ;
			for (i = 0 ; i < len ; i++) for (c = 0 ; c < ch ; c++) d [i * ch + c] = isl_val (isl [k].start + i, c) ;
			while (done < len && !bad)
			{	long p = 1 + vh_rint ((int) (len / 6)), w ; if (p > len - done) p = len - done ;
				w = vh_rint (2) ? (long) sf_writef_short (s, d + done * ch, p) : (long) sf_write_short (s, d + done * ch, p * ch) / ch ;
				if (w != p) { vh_viol (vh_key ("%s|big-write-failed|%s|%s", BIG_PROP, fn, mname), "island %d: wrote %ld of %ld frames at frame %lld: %s", k, w, p, (long long) n, sf_strerror (s)) ; bad = 1 ; break ; }
				done += p ; n += p ;
				if (mode == 1) sf_command (s, SFC_UPDATE_HEADER_NOW, NULL, 0) ;
				if (mode) { SPF snap ; sp_copy (&snap, &f) ; bad |= check_image (&snap, format, ch, rate, bw, n, isl, nisl, zref, "crash point inside an island", fn, mname, 0, downgrade) ; sp_free (&snap) ; ncp++ ; vh_check_inv (s, "big update") ;
					vh_distinct (vh_fnv (0, &format, 4) ^ ((uint64_t) ch << 33) ^ ((uint64_t) mode << 38) ^ ((uint64_t) n << 3) ^ ((uint64_t) downgrade << 62)) ; }
				}
			free (d) ; }
		}
	vh_check_inv (s, "big close") ;
	sf_close (s) ;
	vh_stat ("crash_points_checked", ncp) ;
	vh_statf (1, "largest_file_GiB:%d", (int) (f.len >> 30)) ;
	if (!bad)
	{	bad = BIG_C06 ? 0 : check_image (&f, format, ch, rate, bw, n, isl, nisl, zref, "finished file", fn, mname, vh_thorough ? 2 : 1, downgrade) ;
		if (BIG_C06) big_seek_walk (&f, format, ch, rate, bw, n, isl, nisl, zref, fn) ;
		vh_distinct (vh_fnv (0, &format, 4) ^ ((uint64_t) ch << 33) ^ ((uint64_t) mode << 38) ^ ((uint64_t) n << 3) ^ ((uint64_t) downgrade << 62) ^ 1) ; }
	vh_stat ("bytes_through_write_path_MiB", (long) (f.bytes_written >> 20)) ;
	sp_free (&f) ;
out :
	for (k = 0 ; k < nisl ; k++) free (isl [k].exp) ;
}

int main (int argc, char **argv)
{	int f, c, mode, up ;
	vh_init (argc, argv, BIG_C06 ? "c06_big_files" : BIG_C11 ? "c11_big_files" : "c04_big_files", BIG_PROP) ;
	vh_case_secs = 600 ; vh_case_cpu_secs = 150 ;		/* a big-file case needs seconds of CPU; a parser that spins on one of its images must end the case, not the disk */
	vh_enum_formats () ;
	zbuf = calloc (1, ZBUF_BYTES) ;
	for (f = 0 ; f < vh_nfmts ; f++) for (c = 1 ; c <= 2 ; c++)
	{	int format = vh_fmts [f].format, maj = vh_fmts [f].major, dg ;
		int cap = getenv ("VH_BIG_ALL") ? (big_capable (maj) ? 2 : 0) : big_capable (maj) ;
		if (!cap) continue ;
		if (!vh_sample_granular (format) || vh_bits (format) < 8) continue ;
		if (!vh_accepts (format, c, 8000)) continue ;
		for (mode = (BIG_C11 && !BIG_C06) ? 1 : 0 ; mode <= ((BIG_C11 && !BIG_C06) ? 2 : 0) ; mode++) for (dg = 0 ; dg <= (maj == SF_FORMAT_RF64) ; dg++) for (up = 1 ; up <= cap ; up++)
		{	int tz = zero_is_zero_bytes (format) && ((f + c + up + (int) vh_seed0) & 1) ;
			if (!vh_thorough && up == 1 && cap == 2 && !(maj == SF_FORMAT_RF64 || maj == SF_FORMAT_AU)) continue ;	/* quick: the 2 GiB-only files for the 32-bit-field containers; all cross 4 GiB */
			if (!vh_thorough && (vh_bits (format) == 64 || (vh_bits (format) == 32 && c == 2 && (format & SF_FORMAT_SUBMASK) == SF_FORMAT_PCM_32))) continue ;
			if (!vh_thorough && BIG_C11 && cap == 1 && mode != 1 + ((c + f) & 1)) continue ;		/* quick: one update mode per (format, channels) for the 2 GiB-only containers */
			if (!vh_case ("%s ch=%d mode=%d downgrade=%d upto=%dGiB", vh_fname (format), c, mode, dg, up * 2)) continue ;
			vh_statf (1, "fmt:%s", vh_fname (format)) ;
			vh_sample ("%s ch=%d: %s%s, file grows past %d GiB through the real write calls (%s zero runs + typed islands at offsets 0, 2^31%s, end)", vh_fname (format), c,
				mode == 0 ? "write, close, re-open" : mode == 1 ? "SFC_UPDATE_HEADER_NOW after every call" : "SFC_SET_UPDATE_HEADER_AUTO", dg ? ", SFC_RF64_AUTO_DOWNGRADE" : "", up * 2, tz ? "sf_writef_int" : "sf_write_raw", up == 2 ? ", 2^32" : "") ;
			big_case (format, c, 8000, mode, dg, up, tz) ;
			}
		}
	return vh_finish () ;
}
