/* foreign.h : well-formed sound files as OTHER programs write them - legal by the container's rules, but with layouts the library's own writer never
** produces: odd-sized chunks with pad bytes, metadata sub-chunks the reader only skips, chunks after the audio data, unknown sizes, non-zero SSND offsets.
** They are inputs for monitors whose oracle needs no model of the file (route equivalence, hostile-input mutation seeds, leak accounting).
**
**	int foreign_count (void) ;
**	const char *foreign_make (int idx, unsigned char **data, long *len) ;		returns a short name, caller frees *data
*/
#ifndef VERIF_FOREIGN_H
#define VERIF_FOREIGN_H
#include <stdint.h>
#include <stdlib.h>
#include <string.h>

typedef struct { unsigned char *b ; size_t n, cap ; } FB ;
static void fb_put (FB *f, const void *p, size_t l) { if (f->n + l + 16 > f->cap) { f->cap = 2 * (f->n + l) + 4096 ; f->b = realloc (f->b, f->cap) ; } if (p) memcpy (f->b + f->n, p, l) ; else memset (f->b + f->n, 0, l) ; f->n += l ; }
static void fb_id (FB *f, const char *id) { fb_put (f, id, 4) ; }
static void fb_u8 (FB *f, unsigned v) { unsigned char c = (unsigned char) v ; fb_put (f, &c, 1) ; }
static void fb_le16 (FB *f, unsigned v) { unsigned char c [2] = { v, v >> 8 } ; fb_put (f, c, 2) ; }
static void fb_le32 (FB *f, uint32_t v) { unsigned char c [4] = { v, v >> 8, v >> 16, v >> 24 } ; fb_put (f, c, 4) ; }
static void fb_be16 (FB *f, unsigned v) { unsigned char c [2] = { v >> 8, v } ; fb_put (f, c, 2) ; }
static void fb_be32 (FB *f, uint32_t v) { unsigned char c [4] = { v >> 24, v >> 16, v >> 8, v } ; fb_put (f, c, 4) ; }
static void fb_be64 (FB *f, uint64_t v) { fb_be32 (f, (uint32_t) (v >> 32)) ; fb_be32 (f, (uint32_t) v) ; }
/* chunk: id + size placeholder; fb_end patches the size (exclusive of any pad byte) and pads to even */
static size_t fb_begin (FB *f, const char *id) { size_t at ; fb_id (f, id) ; at = f->n ; fb_le32 (f, 0) ; return at ; }
static void fb_end (FB *f, size_t at, int big) { uint32_t l = (uint32_t) (f->n - at - 4) ; unsigned char *q = f->b + at ; if (big) { q [0] = l >> 24 ; q [1] = l >> 16 ; q [2] = l >> 8 ; q [3] = l ; } else { q [3] = l >> 24 ; q [2] = l >> 16 ; q [1] = l >> 8 ; q [0] = l ; } if (l & 1) fb_u8 (f, 0) ; }
static void fb_text_chunk (FB *f, const char *id, const char *txt, int big) { size_t at = fb_begin (f, id) ; fb_put (f, txt, strlen (txt)) ; fb_end (f, at, big) ; }
static void fb_zstr_chunk (FB *f, const char *id, const char *txt, int big) { size_t at = fb_begin (f, id) ; fb_put (f, txt, strlen (txt) + 1) ; fb_end (f, at, big) ; }
static void fb_pstring (FB *f, const char *s) { size_t l = strlen (s) ; fb_u8 (f, (unsigned) l) ; fb_put (f, s, l) ; if (!(l & 1)) fb_u8 (f, 0) ; }
static void fb_rate80 (FB *f, unsigned rate)		/* 80-bit extended, integer rates */
{	unsigned char c [10] = { 0 } ; unsigned e = 0 ; uint32_t m = rate ; if (rate) { while (!(m & 0x80000000u)) { m <<= 1 ; e++ ; } e = 16383 + 31 - e ; c [0] = e >> 8 ; c [1] = e ; c [2] = m >> 24 ; c [3] = m >> 16 ; c [4] = m >> 8 ; c [5] = m ; } fb_put (f, c, 10) ; }
static int fb_sample (int i, int c) { return (int) (9000.0 * ((i * 37 + c * 11) % 200 - 100) / 100.0) + ((i * 7 + c) % 13) ; }
static void fb_audio (FB *f, int frames, int ch, int bytes, int big, int u8)
{	int i, c ; for (i = 0 ; i < frames ; i++) for (c = 0 ; c < ch ; c++)
	{	int v = fb_sample (i, c) ;
		if (bytes == 1) fb_u8 (f, u8 ? (unsigned) ((v >> 8) + 128) : (unsigned) (v >> 8)) ;
		else if (bytes == 2) { if (big) fb_be16 (f, (unsigned) v) ; else fb_le16 (f, (unsigned) v) ; }
		else if (bytes == 3) { if (big) { fb_u8 (f, (unsigned) (v >> 8)) ; fb_u8 (f, (unsigned) v) ; fb_u8 (f, 0x5a) ; } else { fb_u8 (f, 0x5a) ; fb_u8 (f, (unsigned) v) ; fb_u8 (f, (unsigned) (v >> 8)) ; } }
		else { float x = v / 32768.0f ; uint32_t u ; memcpy (&u, &x, 4) ; if (big) fb_be32 (f, u) ; else fb_le32 (f, u) ; }
		}
}
static void fb_wav_fmt (FB *f, int tag, int ch, int rate, int bytes, int big, int extensible)
{	size_t at = fb_begin (f, "fmt ") ;
#define W16(v) do { if (big) fb_be16 (f, (v)) ; else fb_le16 (f, (v)) ; } while (0)
#define W32(v) do { if (big) fb_be32 (f, (v)) ; else fb_le32 (f, (v)) ; } while (0)
	W16 (extensible ? 0xFFFE : tag) ; W16 (ch) ; W32 (rate) ; W32 (rate * ch * bytes) ; W16 (ch * bytes) ; W16 (8 * bytes) ;
	if (extensible)
	{	static const unsigned char guid_tail [14] = { 0x00, 0x00, 0x00, 0x00, 0x10, 0x00, 0x80, 0x00, 0x00, 0xaa, 0x00, 0x38, 0x9b, 0x71 } ;
		W16 (22) ; W16 (8 * bytes) ; W32 (ch == 2 ? 3 : ch == 1 ? 4 : 0) ; fb_le16 (f, tag) ; fb_put (f, guid_tail, 14) ; }
	else if (extensible < 0) W16 (0) ;		/* an 18-byte fmt chunk with cbSize 0 */
	fb_end (f, at, big) ;
}

#define FOREIGN_N 20
static int foreign_count (void) { return FOREIGN_N ; }
/* what a file cannot be asked to do by its very layout: 1 = the audio cannot be interpreted before something stored behind it has been read (no reader can
** stream it from a pipe); 2 = its length field says "unknown, up to the end of the file", so it has no extent of its own inside a larger file */
static int foreign_limits (int idx) { return idx == 19 ? 1 : (idx == 12 || idx == 15) ? 2 : 0 ; }

static const char *foreign_make (int idx, unsigned char **data, long *len)
{	FB f ; size_t top, at, a2 ; const char *name = "?" ; int i ; static char big_text [3100] ;
	memset (&f, 0, sizeof (f)) ; if (!big_text [0]) { for (i = 0 ; i < 3050 ; i++) big_text [i] = (char) ('a' + i % 26) ; }
	switch (idx)
	{	case 0 : name = "wav-adtl-labl-note-ltxt-before-data" ;
			fb_id (&f, "RIFF") ; top = f.n ; fb_le32 (&f, 0) ; fb_id (&f, "WAVE") ; fb_wav_fmt (&f, 1, 1, 8000, 2, 0, 0) ;
			at = fb_begin (&f, "cue ") ; fb_le32 (&f, 2) ; for (i = 0 ; i < 2 ; i++) { fb_le32 (&f, i + 1) ; fb_le32 (&f, 100 * (i + 1)) ; fb_id (&f, "data") ; fb_le32 (&f, 0) ; fb_le32 (&f, 0) ; fb_le32 (&f, 100 * (i + 1)) ; } fb_end (&f, at, 0) ;
			at = fb_begin (&f, "LIST") ; fb_id (&f, "adtl") ;
			a2 = fb_begin (&f, "labl") ; fb_le32 (&f, 1) ; fb_put (&f, "first", 6) ; fb_end (&f, a2, 0) ;
			a2 = fb_begin (&f, "note") ; fb_le32 (&f, 1) ; fb_put (&f, "a note about cue one", 21) ; fb_end (&f, a2, 0) ;
			a2 = fb_begin (&f, "ltxt") ; fb_le32 (&f, 2) ; fb_le32 (&f, 50) ; fb_id (&f, "rgn ") ; fb_le16 (&f, 0) ; fb_le16 (&f, 0) ; fb_le16 (&f, 0) ; fb_le16 (&f, 0) ; fb_put (&f, "region", 7) ; fb_end (&f, a2, 0) ;
			a2 = fb_begin (&f, "labl") ; fb_le32 (&f, 2) ; fb_put (&f, "second", 7) ; fb_end (&f, a2, 0) ;
			fb_end (&f, at, 0) ;
			at = fb_begin (&f, "data") ; fb_audio (&f, 700, 1, 2, 0, 0) ; fb_end (&f, at, 0) ;
			fb_end (&f, top, 0) ; break ;
		case 1 : name = "wav-info-3000-byte-string-before-data" ;
			fb_id (&f, "RIFF") ; top = f.n ; fb_le32 (&f, 0) ; fb_id (&f, "WAVE") ; fb_wav_fmt (&f, 1, 2, 44100, 2, 0, 0) ;
			at = fb_begin (&f, "LIST") ; fb_id (&f, "INFO") ; fb_zstr_chunk (&f, "INAM", "a name", 0) ; fb_zstr_chunk (&f, "ICMT", big_text, 0) ; fb_zstr_chunk (&f, "IART", "an artist", 0) ; fb_end (&f, at, 0) ;
			at = fb_begin (&f, "data") ; fb_audio (&f, 600, 2, 2, 0, 0) ; fb_end (&f, at, 0) ;
			fb_end (&f, top, 0) ; break ;
		case 2 : name = "wav-u8-odd-data-pad-then-info" ;
			fb_id (&f, "RIFF") ; top = f.n ; fb_le32 (&f, 0) ; fb_id (&f, "WAVE") ; fb_wav_fmt (&f, 1, 1, 11025, 1, 0, 0) ;
			at = fb_begin (&f, "data") ; fb_audio (&f, 1001, 1, 1, 0, 1) ; fb_end (&f, at, 0) ;
			at = fb_begin (&f, "LIST") ; fb_id (&f, "INFO") ; fb_zstr_chunk (&f, "INAM", "odd", 0) ; fb_zstr_chunk (&f, "ISFT", "other software", 0) ; fb_end (&f, at, 0) ;
			fb_end (&f, top, 0) ; break ;
		case 3 : name = "wav-pcm24-odd-junk-fact-disp-bext" ;
			fb_id (&f, "RIFF") ; top = f.n ; fb_le32 (&f, 0) ; fb_id (&f, "WAVE") ;
			at = fb_begin (&f, "junk") ; fb_put (&f, "1234567", 7) ; fb_end (&f, at, 0) ;
			fb_wav_fmt (&f, 1, 2, 48000, 3, 0, 0) ;
			at = fb_begin (&f, "fact") ; fb_le32 (&f, 333) ; fb_end (&f, at, 0) ;
			at = fb_begin (&f, "DISP") ; fb_le32 (&f, 1) ; fb_put (&f, "display me", 11) ; fb_end (&f, at, 0) ;
			at = fb_begin (&f, "bext") ; fb_put (&f, NULL, 602) ; memcpy (f.b + f.n - 602, "a description", 13) ; fb_put (&f, "A=PCM,F=48000,W=24,M=stereo\r\n", 29) ; fb_end (&f, at, 0) ;
			at = fb_begin (&f, "data") ; fb_audio (&f, 333, 2, 3, 0, 0) ; fb_end (&f, at, 0) ;
			fb_end (&f, top, 0) ; break ;
		case 4 : name = "wav-float-fact-peak-trailing-odd-id3" ;
			fb_id (&f, "RIFF") ; top = f.n ; fb_le32 (&f, 0) ; fb_id (&f, "WAVE") ; fb_wav_fmt (&f, 3, 1, 22050, 4, 0, -1) ;
			at = fb_begin (&f, "fact") ; fb_le32 (&f, 500) ; fb_end (&f, at, 0) ;
			at = fb_begin (&f, "PEAK") ; fb_le32 (&f, 1) ; fb_le32 (&f, 1234567) ; { float p = 0.27f ; uint32_t u ; memcpy (&u, &p, 4) ; fb_le32 (&f, u) ; } fb_le32 (&f, 99) ; fb_end (&f, at, 0) ;
			at = fb_begin (&f, "data") ; fb_audio (&f, 500, 1, 4, 0, 0) ; fb_end (&f, at, 0) ;
			at = fb_begin (&f, "id3 ") ; fb_put (&f, "ID3\3\0\0\0\0\0\1x", 11) ; fb_end (&f, at, 0) ;
			fb_end (&f, top, 0) ; break ;
		case 5 : name = "wavex-pcm16-stereo-mask" ;
			fb_id (&f, "RIFF") ; top = f.n ; fb_le32 (&f, 0) ; fb_id (&f, "WAVE") ; fb_wav_fmt (&f, 1, 2, 32000, 2, 0, 1) ;
			at = fb_begin (&f, "data") ; fb_audio (&f, 450, 2, 2, 0, 0) ; fb_end (&f, at, 0) ;
			fb_end (&f, top, 0) ; break ;
		case 6 : name = "rifx-pcm16-with-adtl-after-data" ;
			fb_id (&f, "RIFX") ; top = f.n ; fb_le32 (&f, 0) ; fb_id (&f, "WAVE") ; fb_wav_fmt (&f, 1, 1, 8000, 2, 1, 0) ;
			at = fb_begin (&f, "data") ; fb_audio (&f, 501, 1, 2, 1, 0) ; fb_end (&f, at, 1) ;
			at = fb_begin (&f, "LIST") ; fb_id (&f, "adtl") ; a2 = fb_begin (&f, "note") ; fb_be32 (&f, 1) ; fb_put (&f, "n", 2) ; fb_end (&f, a2, 1) ; fb_end (&f, at, 1) ;
			fb_end (&f, top, 1) ; break ;
		case 7 : case 8 : name = idx == 7 ? "aiff-8bit-odd-ssnd-with-pad" : "aiff-8bit-odd-ssnd-pad-then-name-anno" ;
			fb_id (&f, "FORM") ; top = f.n ; fb_le32 (&f, 0) ; fb_id (&f, "AIFF") ;
			at = fb_begin (&f, "COMM") ; fb_be16 (&f, 1) ; fb_be32 (&f, 1001) ; fb_be16 (&f, 8) ; fb_rate80 (&f, 8000) ; fb_end (&f, at, 1) ;
			at = fb_begin (&f, "SSND") ; fb_be32 (&f, 0) ; fb_be32 (&f, 0) ; fb_audio (&f, 1001, 1, 1, 1, 0) ; fb_end (&f, at, 1) ;
			if (idx == 8) { fb_text_chunk (&f, "NAME", "odd", 1) ; fb_text_chunk (&f, "ANNO", "an annotation of odd length!", 1) ; fb_text_chunk (&f, "(c) ", "someone", 1) ; }
			fb_end (&f, top, 1) ; break ;
		case 9 : name = "aiff-pcm16-appl-mark-inst-ssnd-offset-4" ;
			fb_id (&f, "FORM") ; top = f.n ; fb_le32 (&f, 0) ; fb_id (&f, "AIFF") ;
			fb_text_chunk (&f, "NAME", "before comm", 1) ;
			at = fb_begin (&f, "COMM") ; fb_be16 (&f, 2) ; fb_be32 (&f, 400) ; fb_be16 (&f, 16) ; fb_rate80 (&f, 44100) ; fb_end (&f, at, 1) ;
			at = fb_begin (&f, "APPL") ; fb_id (&f, "stoc") ; fb_pstring (&f, "app data") ; fb_put (&f, "xyz", 3) ; fb_end (&f, at, 1) ;
			at = fb_begin (&f, "MARK") ; fb_be16 (&f, 2) ; fb_be16 (&f, 1) ; fb_be32 (&f, 40) ; fb_pstring (&f, "beg") ; fb_be16 (&f, 2) ; fb_be32 (&f, 300) ; fb_pstring (&f, "end!") ; fb_end (&f, at, 1) ;
			at = fb_begin (&f, "INST") ; fb_u8 (&f, 60) ; fb_u8 (&f, 0) ; fb_u8 (&f, 0) ; fb_u8 (&f, 127) ; fb_u8 (&f, 1) ; fb_u8 (&f, 127) ; fb_be16 (&f, 0) ; fb_be16 (&f, 1) ; fb_be16 (&f, 1) ; fb_be16 (&f, 2) ; fb_be16 (&f, 0) ; fb_be16 (&f, 0) ; fb_be16 (&f, 0) ; fb_end (&f, at, 1) ;
			at = fb_begin (&f, "SSND") ; fb_be32 (&f, 4) ; fb_be32 (&f, 0) ; fb_put (&f, "skip", 4) ; fb_audio (&f, 400, 2, 2, 1, 0) ; fb_end (&f, at, 1) ;
			fb_end (&f, top, 1) ; break ;
		case 10 : name = "aifc-sowt-fver-odd-compression-name" ;
			fb_id (&f, "FORM") ; top = f.n ; fb_le32 (&f, 0) ; fb_id (&f, "AIFC") ;
			at = fb_begin (&f, "FVER") ; fb_be32 (&f, 0xA2805140u) ; fb_end (&f, at, 1) ;
			at = fb_begin (&f, "COMM") ; fb_be16 (&f, 1) ; fb_be32 (&f, 555) ; fb_be16 (&f, 16) ; fb_rate80 (&f, 22050) ; fb_id (&f, "sowt") ; fb_pstring (&f, "little") ; fb_end (&f, at, 1) ;
			at = fb_begin (&f, "SSND") ; fb_be32 (&f, 0) ; fb_be32 (&f, 0) ; fb_audio (&f, 555, 1, 2, 0, 0) ; fb_end (&f, at, 1) ;
			fb_end (&f, top, 1) ; break ;
		case 11 : name = "aifc-ulaw-odd-frames-trailing-anno" ;
			fb_id (&f, "FORM") ; top = f.n ; fb_le32 (&f, 0) ; fb_id (&f, "AIFC") ;
			at = fb_begin (&f, "FVER") ; fb_be32 (&f, 0xA2805140u) ; fb_end (&f, at, 1) ;
			at = fb_begin (&f, "COMM") ; fb_be16 (&f, 1) ; fb_be32 (&f, 777) ; fb_be16 (&f, 16) ; fb_rate80 (&f, 8000) ; fb_id (&f, "ulaw") ; fb_pstring (&f, "ulaw 2:1") ; fb_end (&f, at, 1) ;
			at = fb_begin (&f, "SSND") ; fb_be32 (&f, 0) ; fb_be32 (&f, 0) ; for (i = 0 ; i < 777 ; i++) fb_u8 (&f, (unsigned) (i * 5 + 3)) ; fb_end (&f, at, 1) ;
			fb_text_chunk (&f, "ANNO", "xy", 1) ;
			fb_end (&f, top, 1) ; break ;
		case 12 : name = "au-pcm16-annotation-unknown-size" ;
			fb_id (&f, ".snd") ; fb_be32 (&f, 24 + 40) ; fb_be32 (&f, 0xffffffffu) ; fb_be32 (&f, 3) ; fb_be32 (&f, 8000) ; fb_be32 (&f, 2) ; fb_put (&f, NULL, 40) ; memcpy (f.b + 24, "an annotation, zero padded", 26) ; fb_audio (&f, 600, 2, 2, 1, 0) ; break ;
		case 13 : name = "au-ulaw-28-byte-header" ;
			fb_id (&f, ".snd") ; fb_be32 (&f, 28) ; fb_be32 (&f, 901) ; fb_be32 (&f, 1) ; fb_be32 (&f, 8000) ; fb_be32 (&f, 1) ; fb_be32 (&f, 0) ; for (i = 0 ; i < 901 ; i++) fb_u8 (&f, (unsigned) (i * 3 + 1)) ; break ;
		case 14 : name = "au-little-endian-float" ;
			fb_id (&f, "dns.") ; fb_le32 (&f, 32) ; fb_le32 (&f, 4 * 300) ; fb_le32 (&f, 6) ; fb_le32 (&f, 16000) ; fb_le32 (&f, 1) ; fb_put (&f, "info\0\0\0", 8) ; fb_audio (&f, 300, 1, 4, 0, 0) ; break ;
		case 15 : case 16 : name = idx == 15 ? "caf-lpcm-free-info-data-to-eof" : "caf-lpcm-data-then-info-and-free" ;
			fb_id (&f, "caff") ; fb_be16 (&f, 1) ; fb_be16 (&f, 0) ;
			fb_id (&f, "desc") ; fb_be64 (&f, 32) ; { double r = 8000.0 ; uint64_t u ; memcpy (&u, &r, 8) ; fb_be64 (&f, u) ; } fb_id (&f, "lpcm") ; fb_be32 (&f, 0) ; fb_be32 (&f, 4) ; fb_be32 (&f, 1) ; fb_be32 (&f, 2) ; fb_be32 (&f, 16) ;
			if (idx == 15)
			{	fb_id (&f, "free") ; fb_be64 (&f, 33) ; fb_put (&f, NULL, 33) ;
				fb_id (&f, "info") ; fb_be64 (&f, 4 + 6 + 8 + 7 + 5) ; fb_be32 (&f, 2) ; fb_put (&f, "title", 6) ; fb_put (&f, "foreign", 8) ; fb_put (&f, "artist", 7) ; fb_put (&f, "them", 5) ;
				fb_id (&f, "data") ; fb_be64 (&f, (uint64_t) -1) ; fb_be32 (&f, 0) ; fb_audio (&f, 480, 2, 2, 1, 0) ; }
			else
			{	fb_id (&f, "data") ; fb_be64 (&f, 4 + 480 * 4) ; fb_be32 (&f, 0) ; fb_audio (&f, 480, 2, 2, 1, 0) ;
				fb_id (&f, "info") ; fb_be64 (&f, 4 + 6 + 6) ; fb_be32 (&f, 1) ; fb_put (&f, "title", 6) ; fb_put (&f, "after", 6) ;
				fb_id (&f, "free") ; fb_be64 (&f, 5) ; fb_put (&f, NULL, 5) ; }
			break ;
		case 17 : name = "wav-pcm16-list-info-odd-subchunks-unpadded-size" ;	/* odd sub-chunk sizes, each followed by its pad byte */
			fb_id (&f, "RIFF") ; top = f.n ; fb_le32 (&f, 0) ; fb_id (&f, "WAVE") ; fb_wav_fmt (&f, 1, 1, 8000, 2, 0, 0) ;
			at = fb_begin (&f, "LIST") ; fb_id (&f, "INFO") ; fb_zstr_chunk (&f, "INAM", "ab", 0) ; fb_zstr_chunk (&f, "ICMT", "abcd", 0) ; fb_zstr_chunk (&f, "ICRD", "2001", 0) ; fb_zstr_chunk (&f, "IZZZ", "unknown id", 0) ; fb_end (&f, at, 0) ;
			at = fb_begin (&f, "data") ; fb_audio (&f, 640, 1, 2, 0, 0) ; fb_end (&f, at, 0) ;
			fb_end (&f, top, 0) ; break ;
		case 18 : name = "wav-alaw-fact-odd-frames-cue-after-data" ;
			fb_id (&f, "RIFF") ; top = f.n ; fb_le32 (&f, 0) ; fb_id (&f, "WAVE") ; fb_wav_fmt (&f, 6, 1, 8000, 1, 0, -1) ;
			at = fb_begin (&f, "fact") ; fb_le32 (&f, 803) ; fb_end (&f, at, 0) ;
			at = fb_begin (&f, "data") ; for (i = 0 ; i < 803 ; i++) fb_u8 (&f, (unsigned) (i * 7 + 5)) ; fb_end (&f, at, 0) ;
			at = fb_begin (&f, "cue ") ; fb_le32 (&f, 1) ; fb_le32 (&f, 1) ; fb_le32 (&f, 10) ; fb_id (&f, "data") ; fb_le32 (&f, 0) ; fb_le32 (&f, 0) ; fb_le32 (&f, 10) ; fb_end (&f, at, 0) ;
			fb_end (&f, top, 0) ; break ;
		default : name = "aiff-pcm24-comm-after-ssnd" ;
			fb_id (&f, "FORM") ; top = f.n ; fb_le32 (&f, 0) ; fb_id (&f, "AIFF") ;
			at = fb_begin (&f, "SSND") ; fb_be32 (&f, 0) ; fb_be32 (&f, 0) ; fb_audio (&f, 301, 1, 3, 1, 0) ; fb_end (&f, at, 1) ;
			at = fb_begin (&f, "COMM") ; fb_be16 (&f, 1) ; fb_be32 (&f, 301) ; fb_be16 (&f, 24) ; fb_rate80 (&f, 48000) ; fb_end (&f, at, 1) ;
			fb_end (&f, top, 1) ; break ;
		}
	*data = f.b ; *len = (long) f.n ; return name ;
}
#undef W16
#undef W32
#endif
