/* g711ref.h — reference G.711 written from ITU-T G.711 (arithmetic form, no tables), independent of libsndfile's tables.
** Values are on the 16-bit scale used by libsndfile's short API (mu-law: 14-bit value << 2, A-law: 13-bit value << 3).
*/
#ifndef G711REF_H
#define G711REF_H

/* mu-law: code -> 16-bit linear (G.711 table 2a/2b: y = sgn * ((2*m + 33) * 2^e - 33), 14-bit, then << 2) */
static int ref_ulaw_dec (unsigned code)
{	unsigned u = ~code & 0xff ; int e = (u >> 4) & 7, m = u & 15, mag14 = ((2 * m + 33) << e) - 33 ;
	return (u & 0x80) ? -(mag14 << 2) : (mag14 << 2) ; }
/* A-law: code -> 16-bit linear (13-bit: e = 0: 2m+1 ; e >= 1: (2m+33) * 2^(e-1), then << 3) */
static int ref_alaw_dec (unsigned code)
{	unsigned a = (code ^ 0x55) & 0xff ; int e = (a >> 4) & 7, m = a & 15, mag13 = e == 0 ? 2 * m + 1 : (2 * m + 33) << (e - 1) ;
	return (a & 0x80) ? (mag13 << 3) : -(mag13 << 3) ; }

/* mu-law encoder on the 14-bit magnitude (sign-magnitude), G.711: add bias 33, segment = position of the leading one, 4 mantissa bits */
static unsigned ref_ulaw_enc14 (int neg, int mag14)
{	int e, m ; if (mag14 > 8158) mag14 = 8158 ; mag14 += 33 ;
	for (e = 7 ; e > 0 && !(mag14 & (0x20 << e)) ; e--) ;
	m = (mag14 >> (e + 1)) & 15 ;
	return ~((neg ? 0x80 : 0) | (e << 4) | m) & 0xff ; }
/* A-law encoder on the 13-bit magnitude (sign-magnitude) */
static unsigned ref_alaw_enc13 (int neg, int mag13)
{	int e, m ; unsigned a ; if (mag13 > 4095) mag13 = 4095 ;
	if (mag13 < 32) { e = 0 ; m = mag13 >> 1 ; }
	else { for (e = 7 ; e > 1 && !(mag13 & (0x10 << e)) ; e--) ; m = (mag13 >> e) & 15 ; }
	a = (e << 4) | m ; if (!neg) a |= 0x80 ;
	return (a ^ 0x55) & 0xff ; }

/* is 'code' a nearest reconstruction level for the 16-bit-scale input x?  ties (two levels equally near) accept either */
static int ref_g711_is_nearest (int alaw, unsigned code, int x)
{	int best = 1 << 30, c, d, dc ;
	for (c = 0 ; c < 256 ; c++) { d = abs ((alaw ? ref_alaw_dec (c) : ref_ulaw_dec (c)) - x) ; if (d < best) best = d ; }
	dc = abs ((alaw ? ref_alaw_dec (code) : ref_ulaw_dec (code)) - x) ;
	return dc == best ; }

#endif
