/* mutate.h — structure-aware mutators over sound-file images, shared by the hostile-input (C03) and leak (C16) monitors */
#ifndef MUTATE_H
#define MUTATE_H
typedef struct { unsigned char *d ; long len ; int format, ch, meta ; } CORP ;
static CORP corpus [1400] ; static int ncorp ;
/* ---- mutators */
static void put32 (unsigned char *p, uint32_t v, int big) { if (big) { p [0] = v >> 24 ; p [1] = v >> 16 ; p [2] = v >> 8 ; p [3] = v ; } else { p [3] = v >> 24 ; p [2] = v >> 16 ; p [1] = v >> 8 ; p [0] = v ; } }
static uint32_t get32 (const unsigned char *p, int big) { return big ? ((uint32_t) p [0] << 24 | p [1] << 16 | p [2] << 8 | p [3]) : ((uint32_t) p [3] << 24 | p [2] << 16 | p [1] << 8 | p [0]) ; }
static int is_marker (const unsigned char *p) { int k ; for (k = 0 ; k < 4 ; k++) if (!((p [k] >= 'A' && p [k] <= 'Z') || (p [k] >= 'a' && p [k] <= 'z') || p [k] == ' ' || (p [k] >= '0' && p [k] <= '9'))) return 0 ; return 1 ; }

static void mutate (MEMF *m, const CORP *base, char *desc, size_t dlen)
{	int nm = 1 + vh_rint (4), j ; long hdr = base->len < 400 ? base->len : 400 ; size_t dl = 0 ;
	mv_from (m, base->d, base->len) ; m->cap = m->len + 1 ; desc [0] = 0 ;
	for (j = 0 ; j < nm ; j++)
	{	int kind = vh_rint (14) ; long pos = (vh_rint (3)) ? vh_rint ((int) hdr) : vh_rint ((int) m->len) ; char one [80] ; one [0] = 0 ;
		if (m->len < 8) break ; if (pos >= m->len) pos = m->len - 1 ;
		switch (kind)
		{	case 0 : m->d [pos] = (unsigned char) vh_rnd () ; snprintf (one, 80, "byte@%ld", pos) ; break ;
			case 1 : m->d [pos] ^= 1 << vh_rint (8) ; snprintf (one, 80, "bit@%ld", pos) ; break ;
			case 2 : case 3 : if (pos + 4 <= m->len)
				{	static const uint32_t hv [] = { 0, 1, 2, 0x7fffffff, 0xffffffff, 0xfffffffe, 0x80000000, 0xffff, 0x10000, 1024, 1025, 65535, 0x7ffffffe, 255, 256 } ; uint32_t v = vh_rint (3) ? hv [vh_rint (15)] : (uint32_t) vh_rint (70000) ; int big = vh_rint (2) ;
					if (vh_rint (5) == 0) v = (uint32_t) (m->len - pos + vh_rint (9) - 4) ;
					put32 (m->d + pos, v, big) ; snprintf (one, 80, "u32@%ld=%x%s", pos, v, big ? "BE" : "LE") ; } break ;
			case 4 : if (pos + 4 <= m->len) { int big = vh_rint (2) ; uint32_t v = get32 (m->d + pos, big) + (uint32_t) (vh_rint (9) - 4) ; put32 (m->d + pos, v, big) ; snprintf (one, 80, "inc@%ld", pos) ; } break ;
			case 5 : if (pos + 2 <= m->len) { static const uint16_t hv [] = { 0, 1, 0xffff, 0x7fff, 0x8000, 1024, 1025, 3, 255 } ; uint16_t v = hv [vh_rint (9)] ; if (vh_rint (2)) { m->d [pos] = v >> 8 ; m->d [pos + 1] = v & 255 ; } else { m->d [pos + 1] = v >> 8 ; m->d [pos] = v & 255 ; } snprintf (one, 80, "u16@%ld=%x", pos, v) ; } break ;
			case 6 : m->len = pos > 4 ? pos : 4 ; snprintf (one, 80, "trunc@%ld", pos) ; break ;
			case 7 : case 8 :	/* chunk aware: find a printable 4-char marker, hit the size field after it */
			{	long p, tries = 0 ; for (p = vh_rint ((int) hdr) ; p + 8 <= m->len && tries < 400 ; p++, tries++) if (is_marker (m->d + p)) break ;
				if (p + 8 <= m->len && tries < 400)
				{	static const uint32_t hv [] = { 0, 1, 3, 0x7fffffff, 0xffffffff, 0xfffffffe, 0x80000000, 7 } ; int big = vh_rint (2) ; uint32_t old = get32 (m->d + p + 4, big), v ;
					switch (vh_rint (4)) { case 0 : v = hv [vh_rint (8)] ; break ; case 1 : v = old + 1 ; break ; case 2 : v = old - 1 ; break ; default : v = (uint32_t) (m->len - p - 8 + vh_rint (5) - 2) ; }
					put32 (m->d + p + 4, v, big) ; snprintf (one, 80, "chunksize@%ld(%.4s)=%x", p, m->d + p, v) ; } } break ;
			case 9 :	/* duplicate or delete a region that starts at a marker */
			{	long p, tries = 0, n ; for (p = 12 + vh_rint ((int) hdr) ; p + 8 <= m->len && tries < 400 ; p++, tries++) if (is_marker (m->d + p)) break ;
				if (p + 8 <= m->len && tries < 400)
				{	n = 8 + vh_rint (64) ; if (p + n > m->len) n = m->len - p ;
					if (vh_rint (2)) { memmove (m->d + p, m->d + p + n, m->len - p - n) ; m->len -= n ; snprintf (one, 80, "del@%ld+%ld", p, n) ; }
					else { unsigned char *nd = malloc (m->len + n + 1) ; memcpy (nd, m->d, p + n) ; memcpy (nd + p + n, m->d + p, m->len - p) ; free (m->d) ; m->d = nd ; m->len += n ; m->cap = m->len + 1 ; snprintf (one, 80, "dup@%ld+%ld", p, n) ; } } } break ;
			case 10 :	/* splice bytes from another corpus file */
			if (ncorp > 0)
			{	const CORP *o = &corpus [vh_rint (ncorp)] ; long n = 4 + vh_rint (60), sp = vh_rint ((int) (o->len < 300 ? o->len : 300)) ; if (sp + n > o->len) n = o->len - sp ; if (pos + n > m->len) n = m->len - pos ;
				if (n > 0) { memcpy (m->d + pos, o->d + sp, n) ; snprintf (one, 80, "splice@%ld+%ld", pos, n) ; } } break ;
			case 11 :	/* insert a large skippable chunk (bigger than the 16 KiB skip buffer / the header cache) in front of a chunk marker */
			{	long p, tries = 0, n = (vh_rint (3) == 0 ? 100 : 17000) + vh_rint (60000), k ; int big = vh_rint (2) ; unsigned char *nd ;
				static const char *ids [] = { "JUNK", "PAD ", "junk", "FLLR", "xyzw", "free", "LIST", "(c) ", "ANNO" } ;
				for (p = 12 + vh_rint ((int) hdr) ; p + 8 <= m->len && tries < 400 ; p++, tries++) if (is_marker (m->d + p)) break ;
				if (p + 8 <= m->len && tries < 400)
				{	nd = malloc (m->len + n + 9) ; memcpy (nd, m->d, p) ; memcpy (nd + p, ids [vh_rint (9)], 4) ; put32 (nd + p + 4, (uint32_t) n, big) ;
					for (k = 0 ; k < n ; k++) nd [p + 8 + k] = (k & 7) ? 0 : (unsigned char) vh_rnd () ;
					memcpy (nd + p + 8 + n, m->d + p, m->len - p) ; free (m->d) ; m->d = nd ; m->len += n + 8 ; m->cap = m->len + 1 ; snprintf (one, 80, "bigchunk@%ld+%ld%s", p, n, big ? "BE" : "LE") ; } } break ;
			case 12 :	/* append a chunk after everything else (e.g. a chunk following the audio data) */
			{	long n = vh_rint (3) ? vh_rint (40) : 200 + vh_rint (3000), k ; int big = vh_rint (2) ; unsigned char *nd = malloc (m->len + n + 10) ;
				static const char *ids [] = { "LIST", "NAME", "AUTH", "ANNO", "(c) ", "PEAK", "MARK", "bext", "cue ", "info", "JUNK", "id3 ", "ID3 ", "APPL", "COMT", "INST", "smpl", "fact" } ;
				memcpy (nd, m->d, m->len) ; memcpy (nd + m->len, ids [vh_rint (18)], 4) ; put32 (nd + m->len + 4, (uint32_t) (vh_rint (4) ? n : n + vh_rint (100000)), big) ;
				for (k = 0 ; k < n ; k++) nd [m->len + 8 + k] = (unsigned char) ((k & 3) ? 0 : vh_rnd ()) ;
				free (m->d) ; m->d = nd ; m->len += n + 8 ; m->cap = m->len + 1 ; snprintf (one, 80, "append+%ld%s", n, big ? "BE" : "LE") ; } break ;
			default :	/* random garbage run */
			{	long n = 1 + vh_rint (24), k ; if (pos + n > m->len) n = m->len - pos ; for (k = 0 ; k < n ; k++) m->d [pos + k] = (unsigned char) vh_rnd () ; snprintf (one, 80, "noise@%ld+%ld", pos, n) ; } break ;
			}
		if (dl + strlen (one) + 2 < dlen) dl += snprintf (desc + dl, dlen - dl, "%s ", one) ;
		}
}


/* systematic chunk mutations.  The chunks of the header are found by WALKING the container's chunk list (RIFF/RIFX/RF64 32-bit
** little/big-endian sizes, IFF/AIFF big-endian with even padding, CAF 64-bit big-endian, W64 GUID + 64-bit little-endian), so that text
** inside a chunk is not mistaken for a chunk; containers without such a list fall back to every printable 4-character tag at an even offset.
** mutation 'kind' (31 kinds) of chunk 'idx'; returns 0 when idx is past the last chunk found in the first 'span' bytes. */
typedef struct { long at, szoff ; int big ; } CHUNKPOS ;
static uint64_t get64 (const unsigned char *p, int big) { return big ? ((uint64_t) get32 (p, 1) << 32 | get32 (p + 4, 1)) : ((uint64_t) get32 (p + 4, 0) << 32 | get32 (p, 0)) ; }
static int walk_chunks (const CORP *base, long span, CHUNKPOS *out, int max)
{	const unsigned char *d = base->d ; long len = base->len, p ; int n = 0, layout = -1 ;
	if (len < 24) return 0 ;
	if (!memcmp (d, "RIFF", 4) || !memcmp (d, "RF64", 4)) layout = 0 ; else if (!memcmp (d, "RIFX", 4)) layout = 1 ;
	else if (!memcmp (d, "FORM", 4)) layout = 2 ; else if (!memcmp (d, "caff", 4)) layout = 3 ; else if (!memcmp (d, "riff", 4)) layout = 4 ;
	if (layout < 0)
	{	for (p = 0 ; p < span && p + 8 <= len && n < max ; p += 2) if (is_marker (d + p)) { out [n].at = p ; out [n].szoff = 4 ; out [n].big = -1 ; n++ ; }
		return n ; }
	if (layout <= 2) { out [n].at = 0 ; out [n].szoff = 4 ; out [n].big = layout != 0 ; n++ ; p = 12 ; }
	else if (layout == 3) p = 8 ;
	else { out [n].at = 0 ; out [n].szoff = 16 ; out [n].big = 0 ; n++ ; p = 40 ; }
	while (p + 8 <= len && p < span && n < max)
	{	uint64_t sz ;
		if (layout <= 2) { int big = layout != 0 ; out [n].at = p ; out [n].szoff = 4 ; out [n].big = big ; n++ ; sz = get32 (d + p + 4, big) ; if (!memcmp (d + p, "LIST", 4) || !memcmp (d + p, "list", 4)) { p += 12 ; continue ; } p += 8 + (long) (sz > 0x7fffffff ? 0x7fffffff : sz) ; if (p & 1) p++ ; }
		else if (layout == 3) { if (p + 12 > len) break ; out [n].at = p ; out [n].szoff = 8 ; out [n].big = 1 ; n++ ; sz = get64 (d + p + 4, 1) ; if (sz > 0x7fffffff) break ; p += 12 + (long) sz ; }
		else { if (p + 24 > len) break ; out [n].at = p ; out [n].szoff = 16 ; out [n].big = 0 ; n++ ; sz = get64 (d + p + 16, 0) ; if (sz > 0x7fffffff || sz < 24) break ; p += (long) ((sz + 7) & ~(uint64_t) 7) ; }
		}
	return n ;
}
static int mutate_marker (MEMF *m, const CORP *base, int idx, int kind, long span, char *desc, size_t dlen)
{	CHUNKPOS cp [200] ; int n, big ; long found, so ; uint32_t old ;
	if (span > base->len - 8) span = base->len - 8 ;
	n = walk_chunks (base, span, cp, 200) ;
	if (idx >= n) return 0 ;
	found = cp [idx].at ; so = found + cp [idx].szoff ; if (so + 4 > base->len) return 0 ;
	mv_from (m, base->d, base->len) ; m->cap = m->len + 1 ;
	big = cp [idx].big < 0 ? (kind & 1) : (kind & 1) ? !cp [idx].big : cp [idx].big ;	/* even kinds: the container's own byte order; odd kinds: the other one */
	old = get32 (m->d + so, big) ;
	switch (kind >> 1)
	{	case 0 : put32 (m->d + so, 0, big) ; break ;
		case 1 : put32 (m->d + so, old + 1, big) ; break ;
		case 2 : put32 (m->d + so, old - 1, big) ; break ;
		case 3 : put32 (m->d + so, 0x7fffffff, big) ; break ;
		case 4 : put32 (m->d + so, (uint32_t) (m->len - found), big) ; break ;
		case 5 : m->d [found] = 'z' ; m->d [found + 1] = 'Z' ; break ;			/* unknown chunk id */
		case 6 : put32 (m->d + so, 0xfffffff0u, big) ; break ;
		case 7 : m->len = found + 8 + ((kind & 1) ? 3 : 0) ; if (m->len > base->len) m->len = base->len ; break ;			/* file ends inside this chunk */
		case 8 : m->d [found] = 'z' ; m->d [found + 1] = 'Z' ; put32 (m->d + so, 0xfffffff0u, big) ; break ;	/* unknown id AND a size that wraps 32-bit bounds checks */
		case 9 : m->d [found] = 'z' ; m->d [found + 1] = 'Z' ; put32 (m->d + so, 0xfffffff8u + (uint32_t) (kind & 1) * 5, cp [idx].big < 0 ? 0 : cp [idx].big) ; break ;
		default :	/* kinds 20..30: a CONSISTENT smaller chunk: the last 2, 4, ... 16 payload bytes are removed (kinds 20-27), or the payload is cut to its first 4 / 0 bytes (28, 29), or to half (30); the chunk's
				** own size field and the enclosing RIFF / FORM size are adjusted, so the file is structurally valid and only that chunk is shorter than its writer made it */
		{	int bo = cp [idx].big < 0 ? 0 : cp [idx].big ; uint32_t sz = get32 (m->d + so, bo), cut ; long hdr = cp [idx].szoff + 4, end ;
			if (cp [idx].big < 0 || cp [idx].szoff != 4 || found == 0) { mv_free (m) ; return 0 ; }	/* RIFF / IFF style chunks below the top level only */
			cut = kind <= 27 ? 2u * (uint32_t) (kind - 19) : kind == 28 ? (sz > 4 ? sz - 4 : 0) : kind == 29 ? sz : sz / 2 ; cut &= ~1u ;
			end = found + hdr + sz ; if (cut == 0 || cut > sz || end > m->len) { mv_free (m) ; return 0 ; }
			memmove (m->d + end - cut, m->d + end, (size_t) (m->len - end)) ; m->len -= cut ;
			put32 (m->d + so, sz - cut, bo) ;
			{ uint32_t outer = get32 (m->d + 4, bo) ; put32 (m->d + 4, outer - cut, bo) ; }
			} break ;
		}
	snprintf (desc, dlen, "chunk#%d(%.4s)@%ld kind %d", idx, base->d + found, found, kind) ;
	return 1 ;
}

/* systematic field sweep for the containers with small fixed headers: every 2-byte aligned offset in the first 'span' bytes x 14 hostile 32-bit values
** (7 values, both byte orders) written over the 4 bytes there.  returns 0 when off is past the span. */
#define MUTATE_FIELD_KINDS 14
static int mutate_field (MEMF *m, const CORP *base, int idx, int kind, long span, char *desc, size_t dlen)
{	static const uint32_t vals [7] = { 0, 1, 0x7fffffff, 0xffffffff, 0x80000000, 10000001, 0x00010000 } ; long off = 2L * idx ;
	if (span > base->len - 4) span = base->len - 4 ;
	if (off >= span) return 0 ;
	mv_from (m, base->d, base->len) ; m->cap = m->len + 1 ;
	put32 (m->d + off, vals [kind >> 1], kind & 1) ;
	snprintf (desc, dlen, "u32@%ld=0x%x%s", off, vals [kind >> 1], (kind & 1) ? "BE" : "LE") ;
	return 1 ;
}
#define MUTATE_MARKER_KINDS 31

#endif
