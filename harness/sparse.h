/* sparse.h — a sparse memory file behind SF_VIRTUAL_IO: 64 KiB pages, all-zero pages are never materialised.
** Lets a monitor push the REAL write path of the library past the 2 GiB / 4 GiB / 2^32-frame boundaries (every byte goes through
** sf_write_* -> psf_fwrite -> this callback) while holding only the non-zero "islands" in memory.
*/
#ifndef VH_SPARSE_H
#define VH_SPARSE_H
#include "vh.h"

#define SP_PAGE		65536
#define SP_MAXPG	(1 << 18)		/* 16 GiB of address space */
#define SP_MAXLIVE	8192			/* 512 MiB of materialised pages at most */

typedef struct
{	unsigned char **pg ; sf_count_t len, pos ; long live ; long ncalls, nwrite, nread, budget ;
	sf_count_t bytes_written, bytes_read ;
} SPF ;

static const unsigned char sp_zero [SP_PAGE] ;

static inline int sp_is_zero (const unsigned char *p, size_t n) { return n == 0 || (p [0] == 0 && memcmp (p, p + 1, n - 1) == 0) ; }

static void sp_init (SPF *f) { memset (f, 0, sizeof (*f)) ; f->pg = calloc (SP_MAXPG, sizeof (unsigned char *)) ; }
static void sp_free (SPF *f) { long i ; if (f->pg) { for (i = 0 ; i < SP_MAXPG ; i++) free (f->pg [i]) ; free (f->pg) ; } memset (f, 0, sizeof (*f)) ; }
static void sp_copy (SPF *dst, const SPF *src)
{	long i, np = (long) ((src->len + SP_PAGE - 1) / SP_PAGE) ;
	sp_init (dst) ; dst->len = src->len ;
	for (i = 0 ; i < np && i < SP_MAXPG ; i++) if (src->pg [i]) { dst->pg [i] = malloc (SP_PAGE) ; memcpy (dst->pg [i], src->pg [i], SP_PAGE) ; dst->live++ ; }
}
static inline void sp_tick (SPF *f) { f->ncalls++ ; if (f->budget > 0 && f->ncalls > f->budget) vh_logical_hang ("sparse virtual I/O callback budget exhausted") ; }
static sf_count_t sp_len (void *u) { SPF *f = u ; sp_tick (f) ; return f->len ; }
static sf_count_t sp_seek (sf_count_t off, int wh, void *u)
{	SPF *f = u ; sf_count_t p ; sp_tick (f) ;
	if (wh == SEEK_SET) p = off ; else if (wh == SEEK_CUR) p = f->pos + off ; else p = f->len + off ;
	if (p < 0) return -1 ;
	f->pos = p ; return p ; }
static sf_count_t sp_tell (void *u) { SPF *f = u ; sp_tick (f) ; return f->pos ; }
static sf_count_t sp_read (void *ptr, sf_count_t c, void *u)
{	SPF *f = u ; unsigned char *out = ptr ; sf_count_t done = 0 ; sp_tick (f) ; f->nread++ ;
	if (c <= 0 || f->pos >= f->len) return 0 ;
	if (c > f->len - f->pos) c = f->len - f->pos ;
	while (done < c)
	{	sf_count_t p = f->pos + done ; long pi = (long) (p / SP_PAGE) ; size_t o = (size_t) (p % SP_PAGE), n = SP_PAGE - o ;
		if ((sf_count_t) n > c - done) n = (size_t) (c - done) ;
		if (pi < SP_MAXPG && f->pg [pi]) memcpy (out + done, f->pg [pi] + o, n) ; else memset (out + done, 0, n) ;
		done += n ; }
	f->pos += c ; f->bytes_read += c ; return c ; }
static sf_count_t sp_write (const void *ptr, sf_count_t c, void *u)
{	SPF *f = u ; const unsigned char *in = ptr ; sf_count_t done = 0 ; sp_tick (f) ; f->nwrite++ ;
	if (c <= 0) return 0 ;
	if ((f->pos + c + SP_PAGE - 1) / SP_PAGE >= SP_MAXPG) return 0 ;		/* device full */
	while (done < c)
	{	sf_count_t p = f->pos + done ; long pi = (long) (p / SP_PAGE) ; size_t o = (size_t) (p % SP_PAGE), n = SP_PAGE - o ;
		if ((sf_count_t) n > c - done) n = (size_t) (c - done) ;
		if (!f->pg [pi])
		{	if (!sp_is_zero (in + done, n))
			{	if (f->live >= SP_MAXLIVE) { fprintf (stderr, "sparse file: too many live pages\n") ; exit (2) ; }
				f->pg [pi] = calloc (1, SP_PAGE) ; f->live++ ; memcpy (f->pg [pi] + o, in + done, n) ; }
			}
		else memcpy (f->pg [pi] + o, in + done, n) ;
		done += n ; }
	f->pos += c ; if (f->pos > f->len) f->len = f->pos ;
	f->bytes_written += c ; return c ; }
static SF_VIRTUAL_IO SPVIO = { sp_len, sp_seek, sp_read, sp_write, sp_tell } ;

/* raw bytes of the sparse file (for header field checks) */
static void sp_peek (SPF *f, sf_count_t at, void *out, size_t n) { sf_count_t keep = f->pos ; long nc = f->ncalls, nr = f->nread ; sf_count_t br = f->bytes_read ; memset (out, 0, n) ; f->pos = at ; sp_read (out, n, f) ; f->pos = keep ; f->ncalls = nc ; f->nread = nr ; f->bytes_read = br ; }

#endif
