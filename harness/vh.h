/* vh.h — shared harness for the libsndfile runtime monitors (header-only).
**
** Every monitor is one C file that includes this header, is linked against a
** sanitizer build of /repo's libsndfile.a, and is started by check.py as
**     <monitor> --out FILE --shard I/N --tier quick|thorough --seed S [--from K] [--only K] [--verbose]
** It enumerates numbered cases; a shard runs the cases with (index % N == I).
** Everything the monitor observes is written as JSON lines to FILE:
**   {"t":"viol","key":...,"case":K,"w":...}    a refuting event (key = what fails, stable across runs)
**   {"t":"stat","k":...,"n":...}               counters of what was observed
**   {"t":"sample","case":K,"d":...}            a few literal cases
**   {"t":"crash"|"hang","case":K,"d":...}      written from the death callback / watchdog
**   {"t":"done","cases":..,"distinct":..}      normal end
*/
#ifndef VH_H
#define VH_H

#define _GNU_SOURCE
#include <sndfile.h>
#include <stdio.h>
#include <stdlib.h>
#include <string.h>
#include <stdint.h>
#include <stdarg.h>
#include <unistd.h>
#include <signal.h>
#include <sys/time.h>
#ifdef VH_VALGRIND
#include <valgrind/valgrind.h>
#include <valgrind/memcheck.h>
#endif
#include <math.h>
#include <errno.h>
#include <fcntl.h>
#include <limits.h>
#include <float.h>
#include <inttypes.h>
#include <sys/stat.h>
#include <sys/types.h>

/*------------------------------------------------------------------ hooks */
typedef struct
{	int64_t		read_current, write_current, frames ;
	int64_t		dataoffset, datalength, dataend, filelength, fileoffset ;
	int64_t		header_indx, header_end, header_len ;
	int64_t		strings_used, strings_len ;
	int32_t		channels, samplerate, format, sections, seekable ;
	int32_t		last_op, have_written, mode, error, is_pipe ;
	int32_t		norm_float, norm_double, add_clipping, float_int_mult, scale_int_float ;
	int32_t		auto_header, magick_ok, virtual_io ;
	uint32_t	rchunks_used, rchunks_count, wchunks_used, wchunks_count ;
	uint32_t	string_slots, pad0 ;
	uint64_t	meta_digest ;
} SF_VERIF_STATE ;

extern int sf_verif_get_state (SNDFILE *sndfile, void *out, int size) ;
extern int sf_verif_check_invariants (SNDFILE *sndfile, char *why, int whylen) ;
extern void sf_verif_get_globals (int *errno_out, uint64_t *parselog_digest, uint64_t *syserr_digest) ;

/* weak: absent in the non-sanitizer variants (fast, nosse) */
extern void __sanitizer_set_death_callback (void (*cb) (void)) __attribute__ ((weak)) ;
extern size_t __sanitizer_get_current_allocated_bytes (void) __attribute__ ((weak)) ;
#include <malloc.h>
/* live heap bytes: the sanitizer allocator's statistic, or glibc's in the variants built without ASan */
static inline size_t vh_heap_bytes (void) { if (__sanitizer_get_current_allocated_bytes) return __sanitizer_get_current_allocated_bytes () ; { struct mallinfo2 mi = mallinfo2 () ; return mi.uordblks + mi.hblkhd ; } }
extern int __lsan_do_recoverable_leak_check (void) __attribute__ ((weak)) ;

/*------------------------------------------------------------------ globals */
static const char *vh_mon = "?" ;		/* monitor name */
static const char *vh_prop = "C00" ;
static int		vh_shard = 0, vh_nshards = 1 ;
static int		vh_thorough = 0 ;
static int		vh_verbose = 0 ;
static uint64_t	vh_seed0 = 0 ;
static long		vh_from = 0, vh_only = -1 ;
static long		vh_case_idx = -1 ;		/* index of running case */
static long		vh_next_idx = 0 ;		/* enumeration counter */
static char		vh_case_desc [512] ;
static FILE		*vh_out = NULL ;
static long		vh_cases_run = 0 ;
static int		vh_nsamples = 0 ;
static int		vh_case_secs = 60 ;		/* wall watchdog per case */
static int		vh_nostride_next = 0 ;	/* set before vh_case: this case is exempt from --stride sampling (always part of memcheck runs) */
static int		vh_stride = 1 ;			/* --stride K: run a fixed 1/K sample of the cases only (memcheck runs) */
static long		vh_vg_errors = 0 ;
static int		vh_slow = 1 ;			/* watchdog multiplier: 40 under valgrind */
static int		vh_case_cpu_secs = 0 ;	/* > 0: CPU-time watchdog per case (ITIMER_VIRTUAL): load-independent, so it needs no confirmation run */
static long		vh_viol_count = 0 ;

/*------------------------------------------------------------------ PRNG */
static uint64_t vh_rs = 88172645463325252ULL ;
static inline uint64_t vh_rnd (void)
{	vh_rs ^= vh_rs << 13 ; vh_rs ^= vh_rs >> 7 ; vh_rs ^= vh_rs << 17 ; return vh_rs ; }
static inline uint64_t vh_mix (uint64_t x)
{	x += 0x9e3779b97f4a7c15ULL ; x = (x ^ (x >> 30)) * 0xbf58476d1ce4e5b9ULL ;
	x = (x ^ (x >> 27)) * 0x94d049bb133111ebULL ; return x ^ (x >> 31) ; }
static inline void vh_srand (uint64_t s) { vh_rs = vh_mix (s) | 1 ; }
static inline int vh_rint (int n) { return n <= 0 ? 0 : (int) (vh_rnd () % (uint64_t) n) ; }
static inline uint64_t vh_fnv (uint64_t h, const void *p, size_t n)
{	const unsigned char *c = p ; if (h == 0) h = 1469598103934665603ULL ;
	while (n--) { h ^= *c++ ; h *= 1099511628211ULL ; } return h ; }

/*------------------------------------------------------------------ output */
static void vh_json_str (FILE *f, const char *s)
{	fputc ('"', f) ;
	for ( ; *s ; s++)
	{	unsigned char c = (unsigned char) *s ;
		if (c == '"' || c == '\\') { fputc ('\\', f) ; fputc (c, f) ; }
		else if (c < 32 || c > 126) fprintf (f, "\\u%04x", c) ;
		else fputc (c, f) ;
		}
	fputc ('"', f) ;
}

/* counters */
#define VH_MAXSTAT 512
static struct { char k [80] ; long long n ; } vh_stats [VH_MAXSTAT] ;
static int vh_nstats = 0 ;
static void vh_stat (const char *k, long long n)
{	int i ;
	for (i = 0 ; i < vh_nstats ; i++)
		if (strcmp (vh_stats [i].k, k) == 0) { vh_stats [i].n += n ; return ; }
	if (vh_nstats < VH_MAXSTAT)
	{	snprintf (vh_stats [vh_nstats].k, sizeof (vh_stats [0].k), "%s", k) ;
		vh_stats [vh_nstats++].n = n ;
		}
}
static void vh_statf (long long n, const char *fmt, ...)
{	char b [80] ; va_list ap ; va_start (ap, fmt) ; vsnprintf (b, sizeof (b), fmt, ap) ; va_end (ap) ; vh_stat (b, n) ; }

/* distinct-case set (open addressing, 64-bit hashes) */
static uint64_t *vh_set = NULL ; static size_t vh_set_cap = 0, vh_set_n = 0 ;
static void vh_set_add (uint64_t h)
{	size_t i ;
	if (h == 0) h = 1 ;
	if (vh_set_n * 2 >= vh_set_cap)
	{	size_t nc = vh_set_cap ? vh_set_cap * 2 : 4096, j ; uint64_t *ns = calloc (nc, 8) ;
		for (j = 0 ; j < vh_set_cap ; j++) if (vh_set [j])
		{	i = vh_set [j] & (nc - 1) ; while (ns [i]) i = (i + 1) & (nc - 1) ; ns [i] = vh_set [j] ; }
		free (vh_set) ; vh_set = ns ; vh_set_cap = nc ;
		}
	i = h & (vh_set_cap - 1) ;
	while (vh_set [i]) { if (vh_set [i] == h) return ; i = (i + 1) & (vh_set_cap - 1) ; }
	vh_set [i] = h ; vh_set_n++ ;
}
/* register a distinct, non-trivial case by a hash of its defining parameters */
static inline void vh_distinct (uint64_t h) { vh_set_add (vh_mix (h)) ; }

static void vh_viol (const char *key, const char *fmt, ...)
{	char b [1500] ; va_list ap ;
	va_start (ap, fmt) ; vsnprintf (b, sizeof (b), fmt, ap) ; va_end (ap) ;
	vh_viol_count++ ;
	fprintf (vh_out, "{\"t\":\"viol\",\"key\":") ; vh_json_str (vh_out, key) ;
	fprintf (vh_out, ",\"case\":%ld,\"desc\":", vh_case_idx) ; vh_json_str (vh_out, vh_case_desc) ;
	fprintf (vh_out, ",\"w\":") ; vh_json_str (vh_out, b) ; fprintf (vh_out, "}\n") ;
	if (vh_verbose) fprintf (stderr, "VIOL %s case %ld [%s] %s\n", key, vh_case_idx, vh_case_desc, b) ;
}
static char vh_keybuf [300] ;
static const char *vh_key (const char *fmt, ...)
{	va_list ap ; va_start (ap, fmt) ; vsnprintf (vh_keybuf, sizeof (vh_keybuf), fmt, ap) ; va_end (ap) ; return vh_keybuf ; }

static void vh_sample (const char *fmt, ...)
{	char b [1000] ; va_list ap ;
	if (vh_nsamples >= 6) return ;
	vh_nsamples++ ;
	va_start (ap, fmt) ; vsnprintf (b, sizeof (b), fmt, ap) ; va_end (ap) ;
	fprintf (vh_out, "{\"t\":\"sample\",\"case\":%ld,\"d\":", vh_case_idx) ; vh_json_str (vh_out, b) ; fprintf (vh_out, "}\n") ;
}
static void vh_note (const char *fmt, ...)
{	char b [1000] ; va_list ap ;
	va_start (ap, fmt) ; vsnprintf (b, sizeof (b), fmt, ap) ; va_end (ap) ;
	fprintf (vh_out, "{\"t\":\"note\",\"d\":") ; vh_json_str (vh_out, b) ; fprintf (vh_out, "}\n") ;
}

static void vh_flush_stats (void)
{	int i ;
	for (i = 0 ; i < vh_nstats ; i++)
	{	fprintf (vh_out, "{\"t\":\"stat\",\"k\":") ; vh_json_str (vh_out, vh_stats [i].k) ;
		fprintf (vh_out, ",\"n\":%lld}\n", vh_stats [i].n) ; vh_stats [i].n = 0 ;
		}
	fprintf (vh_out, "{\"t\":\"part\",\"cases\":%ld,\"last\":%ld}\n", vh_cases_run, vh_case_idx) ;
	vh_cases_run = 0 ;
	/* distinct hashes are dumped raw so the driver can union across shards */
	{	size_t j ; fprintf (vh_out, "{\"t\":\"hashes\",\"h\":[") ; int first = 1 ;
		for (j = 0 ; j < vh_set_cap ; j++) if (vh_set [j])
		{	fprintf (vh_out, "%s%" PRIu64, first ? "" : ",", vh_set [j]) ; first = 0 ; vh_set [j] = 0 ; }
		fprintf (vh_out, "]}\n") ; vh_set_n = 0 ;
		}
	fflush (vh_out) ;
}

static volatile int vh_dying = 0 ;
static void vh_death (void)
{	if (vh_dying) return ;
	vh_dying = 1 ;
	if (vh_out == NULL) return ;
	fprintf (vh_out, "\n{\"t\":\"crash\",\"case\":%ld,\"desc\":", vh_case_idx) ; vh_json_str (vh_out, vh_case_desc) ; fprintf (vh_out, "}\n") ;
	vh_flush_stats () ;
}
static void vh_sigdeath (int sig) { fprintf (stderr, "ERROR: UndefinedBehaviorSanitizer: signal-%d \n", sig) ; vh_death () ; _exit (99) ; }
/* the driver caps the size of every file a monitor process writes (RLIMIT_FSIZE): a loop that makes the sanitizer or the library print a line per
** iteration ends here, as a hang of the running case that needs no confirmation run */
static void vh_xfsz (int sig)
{	(void) sig ; signal (SIGXFSZ, SIG_IGN) ;
	if (vh_out)
	{	fprintf (vh_out, "\n{\"t\":\"hang\",\"case\":%ld,\"kind\":\"output-flood\",\"desc\":", vh_case_idx) ; vh_json_str (vh_out, vh_case_desc) ; fprintf (vh_out, "}\n") ;
		vh_dying = 1 ; vh_flush_stats () ;
		}
	_exit (97) ;
}
static void vh_alarm (int sig)
{	(void) sig ;
	if (vh_out)
	{	fprintf (vh_out, "\n{\"t\":\"hang\",\"case\":%ld,\"kind\":\"wall\",\"desc\":", vh_case_idx) ;		/* the leading newline ends a record the signal may have interrupted */ vh_json_str (vh_out, vh_case_desc) ; fprintf (vh_out, "}\n") ;
		vh_dying = 1 ; vh_flush_stats () ;
		}
	_exit (97) ;
}
static void vh_cpu_alarm (int sig)
{	(void) sig ;
	if (vh_out)
	{	fprintf (vh_out, "\n{\"t\":\"hang\",\"case\":%ld,\"kind\":\"cpu\",\"desc\":", vh_case_idx) ; vh_json_str (vh_out, vh_case_desc) ; fprintf (vh_out, "}\n") ;
		vh_dying = 1 ; vh_flush_stats () ;
		}
	_exit (97) ;
}
/* logical (deterministic) hang: I/O callback budget exhausted */
static void vh_logical_hang (const char *what)
{	fprintf (vh_out, "{\"t\":\"hang\",\"case\":%ld,\"kind\":\"logical\",\"what\":", vh_case_idx) ; vh_json_str (vh_out, what) ;
	fprintf (vh_out, ",\"desc\":") ; vh_json_str (vh_out, vh_case_desc) ; fprintf (vh_out, "}\n") ;
	vh_dying = 1 ; vh_flush_stats () ;
	_exit (98) ;
}

static void vh_init (int argc, char **argv, const char *mon, const char *prop)
{	int i ; const char *outp = NULL ;
	vh_mon = mon ; vh_prop = prop ;
	for (i = 1 ; i < argc ; i++)
	{	if (!strcmp (argv [i], "--out") && i + 1 < argc) outp = argv [++i] ;
		else if (!strcmp (argv [i], "--shard") && i + 1 < argc) sscanf (argv [++i], "%d/%d", &vh_shard, &vh_nshards) ;
		else if (!strcmp (argv [i], "--tier") && i + 1 < argc) vh_thorough = !strcmp (argv [++i], "thorough") ;
		else if (!strcmp (argv [i], "--seed") && i + 1 < argc) vh_seed0 = strtoull (argv [++i], NULL, 0) ;
		else if (!strcmp (argv [i], "--from") && i + 1 < argc) vh_from = atol (argv [++i]) ;
		else if (!strcmp (argv [i], "--only") && i + 1 < argc) vh_only = atol (argv [++i]) ;
		else if (!strcmp (argv [i], "--stride") && i + 1 < argc) vh_stride = atoi (argv [++i]) ;
		else if (!strcmp (argv [i], "--verbose")) vh_verbose = 1 ;
		}
	vh_out = outp ? fopen (outp, "a") : stdout ;
	if (vh_out == NULL) { perror ("open --out") ; exit (2) ; }
	{	static char obuf [1 << 16] ; setvbuf (vh_out, obuf, _IOFBF, sizeof (obuf)) ; }
	/* the library itself printf()s (sds.c, ALAC): give stdio its buffers now so they never count as leaks */
	{	static char sbuf [1 << 14] ; if (vh_out != stdout) setvbuf (stdout, sbuf, _IOFBF, sizeof (sbuf)) ; }
	/* private temp directory per monitor process: ALAC temp-file names come from a time-seeded PRNG, and monitors that pin the
	** clock would otherwise make concurrent shards collide on the same name */
	{	const char *td = getenv ("TMPDIR") ; static char priv [400] ;
		snprintf (priv, sizeof (priv), "%s/p%d", td && *td ? td : "/tmp", (int) getpid ()) ;
		if (mkdir (priv, 0700) == 0 || errno == EEXIST) setenv ("TMPDIR", priv, 1) ;
		}
	if (__sanitizer_set_death_callback) __sanitizer_set_death_callback (vh_death) ;
	else { signal (SIGSEGV, vh_sigdeath) ; signal (SIGFPE, vh_sigdeath) ; signal (SIGBUS, vh_sigdeath) ; signal (SIGABRT, vh_sigdeath) ; signal (SIGILL, vh_sigdeath) ; }
	signal (SIGALRM, vh_alarm) ; signal (SIGVTALRM, vh_cpu_alarm) ; signal (SIGXFSZ, vh_xfsz) ;
#ifdef VH_VALGRIND
	if (RUNNING_ON_VALGRIND) vh_slow = 40 ;
#endif
	signal (SIGPIPE, SIG_IGN) ;
	if (vh_only >= 0) vh_verbose = 1 ;
}

/* re-arm both watchdogs inside a long case (one fault point, one history ...) */
static void vh_rearm (void)
{	alarm (vh_case_secs * vh_slow) ;
	if (vh_case_cpu_secs > 0) { struct itimerval itv ; memset (&itv, 0, sizeof (itv)) ; itv.it_value.tv_sec = vh_case_cpu_secs * vh_slow ; setitimer (ITIMER_VIRTUAL, &itv, NULL) ; }
}
/* under memcheck: how many bytes of [p, p+n) hold undefined values; they are marked defined afterwards so that the harness may look at them without
** the report being pinned on the harness.  0 outside valgrind */
static long vh_undefined_bytes (void *p, size_t n)
{
#ifdef VH_VALGRIND
	if (RUNNING_ON_VALGRIND && n > 0)
	{	unsigned char *vb = malloc (n) ; long bad = 0 ; size_t i ;
		if (vb && VALGRIND_GET_VBITS (p, vb, n) == 1) for (i = 0 ; i < n ; i++) if (vb [i]) bad++ ;
		free (vb) ; (void) VALGRIND_MAKE_MEM_DEFINED (p, n) ; return bad ; }
#endif
	(void) p ; (void) n ; return 0 ;
}
/* under valgrind: when the error count grew during the case that just ended, print a marker into valgrind's log so that the
** driver can attribute the error blocks above it to that case */
static void vh_vg_poll (void)
{
#ifdef VH_VALGRIND
	if (RUNNING_ON_VALGRIND)
	{	long n = (long) VALGRIND_COUNT_ERRORS ;
		if (n > vh_vg_errors && vh_case_idx >= 0) { VALGRIND_PRINTF ("VH-CASE %ld %s\n", vh_case_idx, vh_case_desc) ; }
		vh_vg_errors = n ;
		}
#endif
}
/* Case enumeration: call vh_case() for every case in a fixed order; returns 1 when this
** process must run it.  The PRNG is re-seeded from (seed, monitor, index) so a case replays alone. */
static int vh_case (const char *fmt, ...)
{	long idx = vh_next_idx++ ; va_list ap ;
	if (vh_only >= 0) { if (idx != vh_only) { vh_nostride_next = 0 ; return 0 ; } }
	else if (idx < vh_from || (idx % vh_nshards) != vh_shard) { vh_nostride_next = 0 ; return 0 ; }
	else if (vh_stride > 1 && !vh_nostride_next && (vh_mix ((uint64_t) idx * 0x9E3779B97F4A7C15ull + 77) % (uint64_t) vh_stride) != 0)	/* a fixed pseudo-random 1/K sample of the case indices: the same whatever the number of shards */ { vh_nostride_next = 0 ; return 0 ; }
	vh_nostride_next = 0 ;
	vh_vg_poll () ;
	vh_case_idx = idx ;
	va_start (ap, fmt) ; vsnprintf (vh_case_desc, sizeof (vh_case_desc), fmt, ap) ; va_end (ap) ;
	vh_srand (vh_seed0 * 0x100000001b3ULL + vh_fnv (0, vh_mon, strlen (vh_mon)) + (uint64_t) idx * 0x9e3779b97f4a7c15ULL) ;
	vh_cases_run++ ;
	alarm (vh_case_secs * vh_slow) ;
	if (vh_case_cpu_secs > 0) { struct itimerval itv ; memset (&itv, 0, sizeof (itv)) ; itv.it_value.tv_sec = vh_case_cpu_secs * vh_slow ; setitimer (ITIMER_VIRTUAL, &itv, NULL) ; }
	if (vh_verbose) fprintf (stderr, "case %ld: %s\n", idx, vh_case_desc) ;
	return 1 ;
}
static int vh_finish (void)
{	alarm (0) ;
	vh_vg_poll () ;
	vh_case_idx = -1 ;
	vh_flush_stats () ;
	fprintf (vh_out, "{\"t\":\"done\",\"enumerated\":%ld}\n", vh_next_idx) ;
	fflush (vh_out) ;
	return 0 ;
}

/*------------------------------------------------------------------ memory file behind SF_VIRTUAL_IO */
enum { VF_NONE = 0, VF_ZERO, VF_SHORT, VF_SEEKFAIL, VF_LEN_BIG, VF_LEN_SMALL, VF_TELL_OFF, VF_NKINDS } ;
typedef struct
{	unsigned char *d ; sf_count_t len, cap, pos ;
	long ncalls, nread, nwrite, nseek, ntell, nlen ;
	long budget ;				/* > 0: logical hang when ncalls exceeds it */
	long fault_at ; int fault_kind, fault_persist ; long fired ;	/* fault schedule: first faulted call index (1-based); 0 = none */
	int  nonseek ;				/* behave like a pipe: seek fails, length unknown */
	sf_count_t accepted ;		/* highest byte the store ever accepted */
	long fault_at2 ; int fault_kind2 ;	/* optional second single-shot fault point */
	long nwrite_done, snap_wdone ;	/* write callbacks that stored data; their number when the snapshot was taken */
	int snap_want ; unsigned char *snap ; sf_count_t snap_len ;	/* snap_want: keep a copy of the image as it was when the first fault fired (everything accepted before the failure) */
} MEMF ;

static inline void mv_snap (MEMF *m) { if (m->snap_want && m->snap == NULL) { m->snap = malloc ((size_t) m->len + 1) ; if (m->len > 0) memcpy (m->snap, m->d, (size_t) m->len) ; m->snap_len = m->len ; m->snap_wdone = m->nwrite_done ; } }
static inline int mv_fault (MEMF *m)
{	if (m->budget > 0 && m->ncalls > m->budget) vh_logical_hang ("virtual I/O callback budget exhausted") ;
	if (m->fault_at2 > 0 && m->ncalls == m->fault_at2) { m->fired++ ; mv_snap (m) ; return m->fault_kind2 ; }
	if (m->fault_at <= 0) return 0 ;
	if (m->ncalls == m->fault_at || (m->fault_persist && m->ncalls > m->fault_at)) { m->fired++ ; mv_snap (m) ; return m->fault_kind ; }
	return 0 ;
}
static sf_count_t mv_len (void *u)
{	MEMF *m = u ; int k ; m->ncalls++ ; m->nlen++ ; k = mv_fault (m) ;
	if (k == VF_LEN_BIG) return m->len + 1000 ;
	if (k == VF_LEN_SMALL) return m->len / 2 ;
	return m->len ; }
static sf_count_t mv_seek (sf_count_t off, int wh, void *u)
{	MEMF *m = u ; sf_count_t p ; int k ; m->ncalls++ ; m->nseek++ ; k = mv_fault (m) ;
	if (k == VF_SEEKFAIL || m->nonseek) return -1 ;
	if (wh == SEEK_SET) p = off ; else if (wh == SEEK_CUR) p = m->pos + off ; else p = m->len + off ;
	if (p < 0) return -1 ;
	m->pos = p ; return p ; }
static sf_count_t mv_read (void *ptr, sf_count_t c, void *u)
{	MEMF *m = u ; int k ; m->ncalls++ ; m->nread++ ; k = mv_fault (m) ;
	if (k == VF_ZERO) return 0 ;
	if (m->pos >= m->len || c <= 0) return 0 ;
	if (c > m->len - m->pos) c = m->len - m->pos ;
	if (k == VF_SHORT) c = c / 2 ;
	memcpy (ptr, m->d + m->pos, c) ; m->pos += c ; return c ; }
static sf_count_t mv_write (const void *ptr, sf_count_t c, void *u)
{	MEMF *m = u ; int k ; m->ncalls++ ; m->nwrite++ ; k = mv_fault (m) ;
	if (k == VF_ZERO) return 0 ;
	if (c <= 0) return 0 ;
	if (k == VF_SHORT) c = c / 2 ;
	if (c == 0) return 0 ;
	if (m->pos + c > ((sf_count_t) 1 << 27)) return 0 ;	/* the "device" holds 128 MiB: a write far beyond that fails like a full disk (the library may seek anywhere under faults) */
	if (m->pos + c > m->cap)
	{	sf_count_t nc = (m->pos + c) * 2 + 4096 ; m->d = realloc (m->d, nc) ; memset (m->d + m->cap, 0, nc - m->cap) ; m->cap = nc ; }
	if (m->pos > m->len) memset (m->d + m->len, 0, m->pos - m->len) ;
	memcpy (m->d + m->pos, ptr, c) ; m->pos += c ; if (m->pos > m->len) m->len = m->pos ;
	m->nwrite_done++ ;
	return c ; }
static sf_count_t mv_tell (void *u)
{	MEMF *m = u ; int k ; m->ncalls++ ; m->ntell++ ; k = mv_fault (m) ;
	if (k == VF_TELL_OFF) return m->pos + 7 ;
	return m->pos ; }
static SF_VIRTUAL_IO MVIO = { mv_len, mv_seek, mv_read, mv_write, mv_tell } ;

static void mv_free (MEMF *m) { free (m->d) ; memset (m, 0, sizeof (*m)) ; }
static void mv_copy (MEMF *dst, const MEMF *src)
{	memset (dst, 0, sizeof (*dst)) ; dst->d = malloc (src->len + 1) ; memcpy (dst->d, src->d, src->len) ; dst->len = src->len ; dst->cap = src->len + 1 ; }
static void mv_from (MEMF *dst, const void *p, size_t n)
{	memset (dst, 0, sizeof (*dst)) ; dst->d = malloc (n + 1) ; memcpy (dst->d, p, n) ; dst->len = n ; dst->cap = n + 1 ; }
static void mv_rewind (MEMF *m) { m->pos = 0 ; }

/*------------------------------------------------------------------ formats */
typedef struct { int format ; int major, sub ; char mname [48], sname [32], ext [8] ; } VH_FMT ;
static VH_FMT vh_fmts [512] ; static int vh_nfmts = 0 ;
static SF_FORMAT_INFO vh_majors [64], vh_subs [64] ; static int vh_nmaj = 0, vh_nsub = 0 ;
static char vh_mname [64][48], vh_sname [64][32] ;

static const char *vh_short_major (int major)
{	switch (major)
	{	case SF_FORMAT_WAV : return "WAV" ; case SF_FORMAT_AIFF : return "AIFF" ; case SF_FORMAT_AU : return "AU" ;
		case SF_FORMAT_RAW : return "RAW" ; case SF_FORMAT_PAF : return "PAF" ; case SF_FORMAT_SVX : return "SVX" ;
		case SF_FORMAT_NIST : return "NIST" ; case SF_FORMAT_VOC : return "VOC" ; case SF_FORMAT_IRCAM : return "IRCAM" ;
		case SF_FORMAT_W64 : return "W64" ; case SF_FORMAT_MAT4 : return "MAT4" ; case SF_FORMAT_MAT5 : return "MAT5" ;
		case SF_FORMAT_PVF : return "PVF" ; case SF_FORMAT_XI : return "XI" ; case SF_FORMAT_HTK : return "HTK" ;
		case SF_FORMAT_SDS : return "SDS" ; case SF_FORMAT_AVR : return "AVR" ; case SF_FORMAT_WAVEX : return "WAVEX" ;
		case SF_FORMAT_SD2 : return "SD2" ; case SF_FORMAT_FLAC : return "FLAC" ; case SF_FORMAT_CAF : return "CAF" ;
		case SF_FORMAT_WVE : return "WVE" ; case SF_FORMAT_OGG : return "OGG" ; case SF_FORMAT_MPC2K : return "MPC2K" ;
		case SF_FORMAT_RF64 : return "RF64" ; case SF_FORMAT_MPEG : return "MPEG" ;
		}
	return "UNKNOWN" ;
}
static const char *vh_short_sub (int sub)
{	switch (sub)
	{	case SF_FORMAT_PCM_S8 : return "PCM_S8" ; case SF_FORMAT_PCM_16 : return "PCM_16" ; case SF_FORMAT_PCM_24 : return "PCM_24" ;
		case SF_FORMAT_PCM_32 : return "PCM_32" ; case SF_FORMAT_PCM_U8 : return "PCM_U8" ; case SF_FORMAT_FLOAT : return "FLOAT" ;
		case SF_FORMAT_DOUBLE : return "DOUBLE" ; case SF_FORMAT_ULAW : return "ULAW" ; case SF_FORMAT_ALAW : return "ALAW" ;
		case SF_FORMAT_IMA_ADPCM : return "IMA_ADPCM" ; case SF_FORMAT_MS_ADPCM : return "MS_ADPCM" ; case SF_FORMAT_GSM610 : return "GSM610" ;
		case SF_FORMAT_VOX_ADPCM : return "VOX_ADPCM" ; case SF_FORMAT_NMS_ADPCM_16 : return "NMS_16" ; case SF_FORMAT_NMS_ADPCM_24 : return "NMS_24" ;
		case SF_FORMAT_NMS_ADPCM_32 : return "NMS_32" ; case SF_FORMAT_G721_32 : return "G721_32" ; case SF_FORMAT_G723_24 : return "G723_24" ;
		case SF_FORMAT_G723_40 : return "G723_40" ; case SF_FORMAT_DWVW_12 : return "DWVW_12" ; case SF_FORMAT_DWVW_16 : return "DWVW_16" ;
		case SF_FORMAT_DWVW_24 : return "DWVW_24" ; case SF_FORMAT_DWVW_N : return "DWVW_N" ; case SF_FORMAT_DPCM_8 : return "DPCM_8" ;
		case SF_FORMAT_DPCM_16 : return "DPCM_16" ; case SF_FORMAT_VORBIS : return "VORBIS" ; case SF_FORMAT_OPUS : return "OPUS" ;
		case SF_FORMAT_ALAC_16 : return "ALAC_16" ; case SF_FORMAT_ALAC_20 : return "ALAC_20" ; case SF_FORMAT_ALAC_24 : return "ALAC_24" ;
		case SF_FORMAT_ALAC_32 : return "ALAC_32" ; case SF_FORMAT_MPEG_LAYER_I : return "MPEG_L1" ; case SF_FORMAT_MPEG_LAYER_II : return "MPEG_L2" ;
		case SF_FORMAT_MPEG_LAYER_III : return "MPEG_L3" ;
		}
	return "UNKNOWN" ;
}
/* "WAV/PCM_16" for a format word (endian bits ignored) */
static const char *vh_fname (int format)
{	static char b [4][64] ; static int r = 0 ; r = (r + 1) & 3 ;
	snprintf (b [r], 64, "%s/%s", vh_short_major (format & SF_FORMAT_TYPEMASK), vh_short_sub (format & SF_FORMAT_SUBMASK)) ;
	return b [r] ; }
static const char *vh_endname (int format)
{	switch (format & SF_FORMAT_ENDMASK) { case SF_ENDIAN_LITTLE : return "LE" ; case SF_ENDIAN_BIG : return "BE" ; case SF_ENDIAN_CPU : return "CPU" ; }
	return "FILE" ; }

/* Enumerate, at run time, every (major, subtype) the library lists; keep those sf_format_check accepts for mono or stereo. */
static void vh_enum_formats (void)
{	int a, b ;
	if (vh_nfmts) return ;
	sf_command (NULL, SFC_GET_FORMAT_MAJOR_COUNT, &vh_nmaj, sizeof (int)) ;
	sf_command (NULL, SFC_GET_FORMAT_SUBTYPE_COUNT, &vh_nsub, sizeof (int)) ;
	if (vh_nmaj > 64) vh_nmaj = 64 ; if (vh_nsub > 64) vh_nsub = 64 ;
	for (a = 0 ; a < vh_nmaj ; a++)
	{	vh_majors [a].format = a ; sf_command (NULL, SFC_GET_FORMAT_MAJOR, &vh_majors [a], sizeof (SF_FORMAT_INFO)) ;
		snprintf (vh_mname [a], 48, "%s", vh_majors [a].name ? vh_majors [a].name : "?") ; }
	for (b = 0 ; b < vh_nsub ; b++)
	{	vh_subs [b].format = b ; sf_command (NULL, SFC_GET_FORMAT_SUBTYPE, &vh_subs [b], sizeof (SF_FORMAT_INFO)) ;
		snprintf (vh_sname [b], 32, "%s", vh_subs [b].name ? vh_subs [b].name : "?") ; }
	for (a = 0 ; a < vh_nmaj ; a++) for (b = 0 ; b < vh_nsub ; b++)
	{	SF_INFO i1, i2 ; VH_FMT *f ;
		memset (&i1, 0, sizeof (i1)) ; i1.format = vh_majors [a].format | vh_subs [b].format ; i1.channels = 1 ; i1.samplerate = 8000 ;
		i2 = i1 ; i2.channels = 2 ;
		if (!sf_format_check (&i1) && !sf_format_check (&i2)) continue ;
		if (vh_nfmts >= 512) break ;
		f = &vh_fmts [vh_nfmts++] ; f->format = i1.format ; f->major = vh_majors [a].format ; f->sub = vh_subs [b].format ;
		snprintf (f->mname, sizeof (f->mname), "%s", vh_mname [a]) ; snprintf (f->sname, sizeof (f->sname), "%s", vh_sname [b]) ;
		snprintf (f->ext, sizeof (f->ext), "%s", vh_majors [a].extension ? vh_majors [a].extension : "dat") ;
		}
}
static int vh_accepts (int format, int ch, int rate)
{	SF_INFO i ; memset (&i, 0, sizeof (i)) ; i.format = format ; i.channels = ch ; i.samplerate = rate ; return sf_format_check (&i) ; }

/* ---- facts about encodings, written from the format documents / property text, not read from the library */
static int vh_is_pcm_int (int sub) { return sub == SF_FORMAT_PCM_S8 || sub == SF_FORMAT_PCM_U8 || sub == SF_FORMAT_PCM_16 || sub == SF_FORMAT_PCM_24 || sub == SF_FORMAT_PCM_32 ; }
static int vh_is_fp (int sub) { return sub == SF_FORMAT_FLOAT || sub == SF_FORMAT_DOUBLE ; }
static int vh_is_alac (int format) { int sub = format & SF_FORMAT_SUBMASK ; return sub == SF_FORMAT_ALAC_16 || sub == SF_FORMAT_ALAC_20 || sub == SF_FORMAT_ALAC_24 || sub == SF_FORMAT_ALAC_32 ; }
static int vh_is_g711 (int sub) { return sub == SF_FORMAT_ULAW || sub == SF_FORMAT_ALAW ; }
/* one stored code per sample, fixed width: the "sample-granular" encodings */
static int vh_sample_granular (int format)
{	int sub = format & SF_FORMAT_SUBMASK, maj = format & SF_FORMAT_TYPEMASK ;
	if (maj == SF_FORMAT_SDS) return 0 ;						/* packets of 120 data bytes */
	if (maj == SF_FORMAT_PAF && sub == SF_FORMAT_PCM_24) return 0 ;	/* 10-frame packed blocks */
	return vh_is_pcm_int (sub) || vh_is_fp (sub) || vh_is_g711 (sub) ; }
/* significant bits stored per sample */
static int vh_bits (int format)
{	switch (format & SF_FORMAT_SUBMASK)
	{	case SF_FORMAT_PCM_S8 : case SF_FORMAT_PCM_U8 : case SF_FORMAT_DPCM_8 : return 8 ;
		case SF_FORMAT_PCM_16 : case SF_FORMAT_DPCM_16 : case SF_FORMAT_DWVW_16 : case SF_FORMAT_ALAC_16 : return 16 ;
		case SF_FORMAT_PCM_24 : case SF_FORMAT_DWVW_24 : case SF_FORMAT_ALAC_24 : return 24 ;
		case SF_FORMAT_PCM_32 : case SF_FORMAT_ALAC_32 : return 32 ;
		case SF_FORMAT_DWVW_12 : return 12 ; case SF_FORMAT_ALAC_20 : return 20 ;
		case SF_FORMAT_FLOAT : return 32 ; case SF_FORMAT_DOUBLE : return 64 ;
		}
	return 0 ; }
static int vh_is_lossless_int (int format)	/* integer encodings that keep every stored bit */
{	int sub = format & SF_FORMAT_SUBMASK ;
	switch (sub)
	{	case SF_FORMAT_PCM_S8 : case SF_FORMAT_PCM_U8 : case SF_FORMAT_PCM_16 : case SF_FORMAT_PCM_24 : case SF_FORMAT_PCM_32 :
		case SF_FORMAT_DWVW_12 : case SF_FORMAT_DWVW_16 : case SF_FORMAT_DWVW_24 : case SF_FORMAT_DPCM_8 : case SF_FORMAT_DPCM_16 :
		case SF_FORMAT_ALAC_16 : case SF_FORMAT_ALAC_20 : case SF_FORMAT_ALAC_24 : case SF_FORMAT_ALAC_32 : return 1 ;
		}
	return 0 ; }
static int vh_wav_blocksize (int srate_chan)
{	if (srate_chan < 12000) return 256 ; if (srate_chan < 23000) return 512 ; if (srate_chan < 44000) return 1024 ; return 2048 ; }
/* block length B in frames (1 = sample granular) */
static int vh_block (int format, int ch, int rate)
{	int sub = format & SF_FORMAT_SUBMASK, maj = format & SF_FORMAT_TYPEMASK ;
	switch (sub)
	{	case SF_FORMAT_IMA_ADPCM :
			if (maj == SF_FORMAT_AIFF) return 64 ;
			return 2 * (vh_wav_blocksize (rate * ch) - 4 * ch) / ch + 1 ;
		case SF_FORMAT_MS_ADPCM : return 2 + 2 * (vh_wav_blocksize (rate * ch) - 7 * ch) / ch ;
		case SF_FORMAT_GSM610 : return (maj == SF_FORMAT_WAV || maj == SF_FORMAT_W64 || maj == SF_FORMAT_WAVEX) ? 320 : 160 ;
		case SF_FORMAT_G721_32 : case SF_FORMAT_G723_24 : case SF_FORMAT_G723_40 : return 120 ;
		case SF_FORMAT_NMS_ADPCM_16 : case SF_FORMAT_NMS_ADPCM_24 : case SF_FORMAT_NMS_ADPCM_32 : return 160 ;
		case SF_FORMAT_VOX_ADPCM : return 2 ;
		}
	if (maj == SF_FORMAT_PAF && sub == SF_FORMAT_PCM_24) return 10 ;
	if (maj == SF_FORMAT_SDS) return sub == SF_FORMAT_PCM_S8 ? 60 : sub == SF_FORMAT_PCM_16 ? 40 : 30 ;
	return 1 ; }

/*------------------------------------------------------------------ open helpers */
static SNDFILE *vh_open_w (MEMF *m, int format, int ch, int rate, SF_INFO *out)
{	SF_INFO wi ; SNDFILE *s ; memset (&wi, 0, sizeof (wi)) ; wi.format = format ; wi.channels = ch ; wi.samplerate = rate ;
	s = sf_open_virtual (&MVIO, SFM_WRITE, &wi, m) ; if (out) *out = wi ; return s ; }
/* re-open a memory file for reading; RAW needs the writer's parameters */
static SNDFILE *vh_open_r (MEMF *m, int format, int ch, int rate, SF_INFO *ri)
{	memset (ri, 0, sizeof (*ri)) ;
	if ((format & SF_FORMAT_TYPEMASK) == SF_FORMAT_RAW) { ri->format = format ; ri->channels = ch ; ri->samplerate = rate ; }
	m->pos = 0 ; return sf_open_virtual (&MVIO, SFM_READ, ri, m) ; }

static int vh_check_inv (SNDFILE *s, const char *where)
{	char why [128] ;
	if (s && sf_verif_check_invariants (s, why, sizeof (why)))
	{	vh_viol (vh_key ("%s|invariant|%s", vh_prop, why), "after %s: %s", where, why) ; return 1 ; }
	return 0 ; }
static inline int vh_state (SNDFILE *s, SF_VERIF_STATE *st) { return sf_verif_get_state (s, st, sizeof (*st)) ; }

/* exact-size heap block: ASan red zones sit directly before and after it */
static void *vh_guard_alloc (size_t n, int fill) { unsigned char *p = malloc (n ? n : 1) ; memset (p, fill, n ? n : 1) ; return p ; }

/*------------------------------------------------------------------ typed buffers */
enum { T_SHORT = 0, T_INT, T_FLOAT, T_DOUBLE, T_N } ;
static const char *vh_tname [] = { "short", "int", "float", "double" } ;
static const int vh_tsize [] = { 2, 4, 4, 8 } ;

static sf_count_t vh_write_t (SNDFILE *s, int t, int framewise, const void *p, sf_count_t items, int ch)
{	if (framewise)
	{	sf_count_t fr = items / ch, r = 0 ;
		switch (t) { case T_SHORT : r = sf_writef_short (s, p, fr) ; break ; case T_INT : r = sf_writef_int (s, p, fr) ; break ;
			case T_FLOAT : r = sf_writef_float (s, p, fr) ; break ; default : r = sf_writef_double (s, p, fr) ; }
		return r * ch ; }
	switch (t) { case T_SHORT : return sf_write_short (s, p, items) ; case T_INT : return sf_write_int (s, p, items) ;
		case T_FLOAT : return sf_write_float (s, p, items) ; default : return sf_write_double (s, p, items) ; } }
static sf_count_t vh_read_t (SNDFILE *s, int t, int framewise, void *p, sf_count_t items, int ch)
{	if (framewise)
	{	sf_count_t fr = items / ch, r = 0 ;
		switch (t) { case T_SHORT : r = sf_readf_short (s, p, fr) ; break ; case T_INT : r = sf_readf_int (s, p, fr) ; break ;
			case T_FLOAT : r = sf_readf_float (s, p, fr) ; break ; default : r = sf_readf_double (s, p, fr) ; }
		return r * ch ; }
	switch (t) { case T_SHORT : return sf_read_short (s, p, items) ; case T_INT : return sf_read_int (s, p, items) ;
		case T_FLOAT : return sf_read_float (s, p, items) ; default : return sf_read_double (s, p, items) ; } }


/*------------------------------------------------------------------ test-file factory */
/* value of frame i, channel c for the "counter" signal: distinct per frame in >= 16-bit lossless encodings, smooth enough for codecs */
static inline int32_t vh_sig (long i, int c, int kind)
{	if (kind == 0) return (int32_t) (((uint32_t) (i * 7 + c * 3 + 1) & 0x7fff) << 16) | 0 ;			/* counter in the top 16 bits (unique for 4681 frames per lap) */
	if (kind == 1) return (int32_t) (1.6e9 * sin ((i + 31 * c) * 0.021) + 2.0e8 * sin (i * 0.37 + c)) ;	/* two-tone */
	return (int32_t) (vh_mix ((uint64_t) i * 1024 + c) >> 32) ;											/* noise, position addressable */
}
/* write N frames of signal 'kind' (int API) into a fresh memory file; returns 0 on success */
static int vh_make_file (MEMF *m, int format, int ch, int rate, long N, int kind)
{	SNDFILE *s ; long i, done = 0 ; int c ; int *buf ; sf_count_t w = 0 ;
	memset (m, 0, sizeof (*m)) ;
	s = vh_open_w (m, format, ch, rate, NULL) ;
	if (s == NULL) return -1 ;
	buf = malloc (sizeof (int) * 4096 * ch) ;
	while (done < N)
	{	long k = N - done > 4096 ? 4096 : N - done ;
		for (i = 0 ; i < k ; i++) for (c = 0 ; c < ch ; c++) buf [i * ch + c] = vh_sig (done + i, c, kind) ;
		w = sf_writef_int (s, buf, k) ;
		if (w != k) break ;
		done += k ;
		}
	free (buf) ;
	sf_close (s) ;
	return done == N ? 0 : -2 ;
}

/* channel counts to try for a format: those of the candidate list the library accepts */
static int vh_channels_for (int format, int *out, int max, int thorough)
{	static const int cq [] = { 1, 2, 3, 5, 7 }, ct [] = { 1, 2, 3, 5, 7, 8, 11, 17, 256, 1024 } ;	/* 7 and 11 divide none of the staging sizes 2040 / 2048 / 4096 / 8192 */
	const int *c = thorough ? ct : cq ; int n = thorough ? 10 : 5, i, k = 0 ;
	for (i = 0 ; i < n && k < max ; i++) if (vh_accepts (format, c [i], 8000)) out [k++] = c [i] ;
	return k ; }

#endif /* VH_H */
