#!/usr/bin/env python3
"""Regenerate MANIFEST.json from registry.py (run after editing the registry)."""
import json, os, subprocess
from registry import PROPS, NOT_APPLICABLE
V = os.path.dirname(os.path.abspath(__file__))
ids = [json.loads(l)['id'] for l in open(os.path.join(V, 'properties.jsonl'))]
hooks = subprocess.run(['git', '-C', '/repo', 'log', '--format=%H %s'], capture_output=True, text=True).stdout.splitlines()
hook_commits = [l.split()[0] for l in hooks if l.split(' ', 1)[1].startswith('verif:')]
checks = []
for p in ids:
    if p not in PROPS:
        continue
    c = PROPS[p]
    checks.append({
        'property_id': p,
        'quick_cmd': 'python3 check.py %s --tier quick' % p,
        'thorough_cmd': 'python3 check.py %s --tier thorough' % p,
        'evidence_file': 'evidence/%s.json' % p,
        'replay_cmd_template': 'python3 check.py replay {path}',
        'engine': 'runtime-monitors',
        'level_claimed': {'category': c['level'], 'text': c.get('level_text', c['rule']), 'design_ref': 'DESIGN.md section 5, ' + p},
        'level_note': c.get('level_note', '; '.join(c.get('assumptions', []))),
        'technique': c.get('technique', 'runtime monitoring under AddressSanitizer/UBSan with an executable oracle'),
    })
na = [{'property_id': p, 'reason': NOT_APPLICABLE.get(p, 'monitor not built yet in this round')} for p in ids if p not in PROPS]
m = {
    'version': 1,
    'setup_cmd': 'python3 check.py setup',
    'hooks': {'guard': 'LIBSNDFILE_VERIF',
              'enable': 'check.py configures out-of-tree CMake builds of /repo with -DLIBSNDFILE_VERIF in CMAKE_C_FLAGS (variants asan, fast, nosse under /verif/.build)',
              'baseline_off_cmd': 'python3 check.py baseline-off',
              'source_commits': hook_commits, 'add_only': True},
    'engines': [{'name': 'runtime-monitors', 'path': 'check.py', 'serves_properties': [c['property_id'] for c in checks],
                 'kind_free_text': 'C monitors (monitors/*.c + harness/vh.h) linked against sanitizer builds of libsndfile.a; python driver shards cases over 16 processes, attributes sanitizer reports to cases, matches violation keys against known_findings.json, writes evidence'}],
    'checks': checks,
    'notes': 'See DESIGN.md. Exit 0 = held on everything explored (KNOWN-FINDING lines list recorded defects), 1 = VIOLATION, 2 = harness failure or inconclusive.',
    'not_applicable': na,
}
json.dump(m, open(os.path.join(V, 'MANIFEST.json'), 'w'), indent=1)
print('MANIFEST.json:', len(checks), 'checks,', len(na), 'not claimed')
