/* C01 — lossless write/close/re-open/read round trip is bit exact.
** Oracle: memcmp of what was written with what is read back (no tolerance), for every
** (container, encoding, endian, channels, caller type) for which the property calls the encoding lossless.
*/
#include "vh.h"

/* number of low bits of a T-typed sample that must be zero for the encoding to hold it; -1 = not lossless for T */
static int lowzero_bits (int format, int t)
{	int sub = format & SF_FORMAT_SUBMASK, bits = vh_bits (format) ;
	if (t == T_FLOAT) return (sub == SF_FORMAT_FLOAT || sub == SF_FORMAT_DOUBLE) ? 0 : -1 ;
	if (t == T_DOUBLE) return (sub == SF_FORMAT_DOUBLE) ? 0 : -1 ;
	if (!vh_is_lossless_int (format)) return -1 ;
	if (sub == SF_FORMAT_DPCM_8) return -1 ;			/* only 16-bit DPCM is claimed */
	{	int tw = (t == T_SHORT) ? 16 : 32 ;
		return bits >= tw ? 0 : tw - bits ; }
}

enum { G_NOISE, G_EXTREME, G_SILENCE, G_RAMP, G_SINE, G_LOWNOISE, G_IMPULSE, G_CHANNELS, G_STEPS, G_N } ;
static int gen_ch = 1 ;	/* channel count for G_CHANNELS: smooth but mutually unrelated channels (sine, constant, slower sine, slow ramp ...) */
static const char *gname [] = { "noise", "extremes", "silence", "ramp", "sine", "lownoise", "impulse", "unrelated-channels", "steps" } ;
static int gen_phase ;	/* G_STEPS: a nearly flat level of +-30000 (16-bit scale) with a ripple of a few LSB, whose sign flips once per 4096 frames, 1..8 frames behind
						** a multiple of 4096: compressible (so a predictive coder does not fall back to verbatim packets), with a near-full-scale step inside the
						** first samples of a packet, where predictors run on plain deltas */

static void gen_data (void *buf, int t, long items, int gen, int lz)
{	long i ;
	for (i = 0 ; i < items ; i++)
	{	int64_t iv = 0 ; double fv = 0 ;
		switch (gen)
		{	case G_NOISE : iv = (int32_t) vh_rnd () ; break ;
			case G_EXTREME : { static const int32_t e [] = { INT32_MIN, INT32_MAX, -1, 1, 0, INT32_MIN, INT32_MIN, INT32_MAX, INT32_MAX, 0x7fff0000, (int32_t) 0x80010000 } ; iv = e [vh_rint (11)] ; } break ;
			case G_SILENCE : iv = 0 ; break ;
			case G_RAMP : iv = (int32_t) ((uint32_t) i * 2654435u) ; break ;
			case G_SINE : iv = (int32_t) (2147483000.0 * sin (i * 0.013)) ; break ;
			case G_LOWNOISE : iv = ((int32_t) vh_rnd ()) >> 20 << 16 ; break ;
			case G_IMPULSE : iv = (vh_rint (97) == 0) ? (int32_t) vh_rnd () : 0 ; break ;
			case G_STEPS : { long fr = i / gen_ch ; int c = (int) (i % gen_ch) ; long off = 1 + (c * 3 + gen_phase) % 8, edges = (fr + 4096 - off) / 4096 ; iv = ((edges & 1) ? 1 : -1) * (int64_t) 0x75300000 + ((fr * 7 + c) % 5 - 2) * 0x10000 ; } break ;
			case G_CHANNELS : { long fr = i / gen_ch ; int c = (int) (i % gen_ch) ; iv = (c % 4 == 0) ? (int32_t) (1.9e9 * sin (fr * 0.013 + c)) : (c % 4 == 1) ? 0x01234500 + c * 0x1100 : (c % 4 == 2) ? (int32_t) (6.0e8 * sin (fr * 0.0071 + 1)) : (int32_t) (fr * 7001 - 1000000) ; } break ;
			}
		switch (t)
		{	case T_SHORT : { int16_t s = (int16_t) (iv >> 16) ; if (lz) s = (int16_t) (s & ~((1 << lz) - 1)) ; ((short *) buf) [i] = s ; } break ;
			case T_INT : { int32_t v = (int32_t) iv ; if (lz) v = (int32_t) ((uint32_t) v & ~((1u << lz) - 1)) ; ((int *) buf) [i] = v ; } break ;
			case T_FLOAT :
			{	float f ;
				if (gen == G_NOISE) { uint32_t b ; do b = (uint32_t) vh_rnd () ; while (((b >> 23) & 0xff) == 0xff) ; memcpy (&f, &b, 4) ; }	/* any finite float incl. denormals, -0 */
				else if (gen == G_EXTREME) { static const float e [] = { FLT_MAX, -FLT_MAX, FLT_MIN, -FLT_MIN, 1.0f, -1.0f, 0.0f, -0.0f, 1.4e-45f, 0.99999994f, 32767.0f, -32768.0f, 1e30f } ; f = e [vh_rint (13)] ; }
				else f = (float) (iv / 2147483648.0) ;
				((float *) buf) [i] = f ; } break ;
			default :
			{	double d ;
				if (gen == G_NOISE) { uint64_t b ; do b = vh_rnd () ; while (((b >> 52) & 0x7ff) == 0x7ff) ; memcpy (&d, &b, 8) ; }
				else if (gen == G_EXTREME) { static const double e [] = { DBL_MAX, -DBL_MAX, DBL_MIN, -DBL_MIN, 1.0, -1.0, 0.0, -0.0, 4.9e-324, 0.99999999999999989, 1e300, -1e-300 } ; d = e [vh_rint (12)] ; }
				else d = iv / 2147483648.0 + (gen == G_LOWNOISE ? 1e-17 * i : 0) ;
				((double *) buf) [i] = d ; } break ;
			}
		(void) fv ;
		}
}

/* serialise item i of buf (type t) as stored by a PCM16/24/32/float/double encoding in byte order 'big' */
static int serialise (unsigned char *o, const void *buf, int t, long i, int sub, int big)
{	unsigned char b [8] ; int w = 0, k ;
	if (sub == SF_FORMAT_FLOAT && t == T_FLOAT) { memcpy (b, (const float *) buf + i, 4) ; w = 4 ; }
	else if (sub == SF_FORMAT_DOUBLE && t == T_DOUBLE) { memcpy (b, (const double *) buf + i, 8) ; w = 8 ; }
	else if (sub == SF_FORMAT_DOUBLE && t == T_FLOAT) { double d = ((const float *) buf) [i] ; memcpy (b, &d, 8) ; w = 8 ; }
	else if (t == T_SHORT || t == T_INT)
	{	int32_t v = (t == T_SHORT) ? ((int32_t) ((const short *) buf) [i]) * 65536 : ((const int *) buf) [i] ;
		w = sub == SF_FORMAT_PCM_16 ? 2 : sub == SF_FORMAT_PCM_24 ? 3 : sub == SF_FORMAT_PCM_32 ? 4 : 0 ;
		if (!w) return 0 ;
		v >>= (32 - 8 * w) ; for (k = 0 ; k < w ; k++) b [k] = (v >> (8 * k)) & 0xff ;
		}
	else return 0 ;
	for (k = 0 ; k < w ; k++) o [k] = big ? b [w - 1 - k] : b [k] ;
	return w ;
}

static void run_case (int format, int ch, int rate, int t, int lz, int gen, long N)
{	MEMF m ; SNDFILE *s ; SF_INFO ri ; long items = N * ch, done ; int ts = vh_tsize [t], pmode = vh_rint (3) ;
	const char *fn = vh_fname (format) ;
	void *wbuf = vh_guard_alloc (items * ts, 0), *rbuf ;
	memset (&m, 0, sizeof (m)) ;
	gen_ch = ch ; gen_phase = vh_rint (8) ; gen_data (wbuf, t, items, gen, lz) ;
	s = vh_open_w (&m, format, ch, rate, NULL) ;
	if (s == NULL)
	{	vh_viol (vh_key ("C01|open-write-failed|%s", fn), "sf_format_check accepted but open failed: %s", sf_strerror (NULL)) ; free (wbuf) ; return ; }
	/* writer options that change how the header is laid out or labelled, never what the samples are: the round trip must not notice them */
	switch (vh_rint (8))
	{	case 0 : if ((format & SF_FORMAT_TYPEMASK) == SF_FORMAT_WAVEX) { sf_command (s, SFC_WAVEX_SET_AMBISONIC, NULL, SF_AMBISONIC_B_FORMAT) ; vh_stat ("option:wavex-ambisonic-b-format", 1) ; } break ;
		case 1 : sf_command (s, SFC_SET_ADD_PEAK_CHUNK, NULL, SF_FALSE) ; vh_stat ("option:no-peak-chunk", 1) ; break ;
		case 2 : sf_command (s, SFC_SET_UPDATE_HEADER_AUTO, NULL, SF_TRUE) ; vh_stat ("option:auto-header-update", 1) ; break ;
		case 3 : if ((format & SF_FORMAT_TYPEMASK) == SF_FORMAT_RF64) { sf_command (s, SFC_RF64_AUTO_DOWNGRADE, NULL, SF_TRUE) ; vh_stat ("option:rf64-auto-downgrade", 1) ; } break ;
		default : break ;
		}
	for (done = 0 ; done < items ; )
	{	long k = (pmode == 0) ? items - done : ch * (1 + vh_rint (pmode == 1 ? 9 : 5000)) ; sf_count_t w ;
		if (k > items - done) k = items - done ;
		w = vh_write_t (s, t, vh_rint (2), (char *) wbuf + done * ts, k, ch) ;
		if (w != k)
		{	vh_viol (vh_key ("C01|write-count|%s", fn), "write of %ld items at %ld returned %ld, sf_error=%d", k, done, (long) w, sf_error (s)) ; break ; }
		done += k ;
		}
	if (sf_error (s) != 0 && done == items) vh_viol (vh_key ("C01|write-error|%s", fn), "sf_error=%d (%s) after successful writes", sf_error (s), sf_strerror (s)) ;
	vh_check_inv (s, "writes") ;
	{	int ce = sf_close (s) ; if (ce) vh_viol (vh_key ("C01|close|%s", fn), "sf_close returned %d", ce) ; }
	if (done < items) { free (wbuf) ; mv_free (&m) ; return ; }
	vh_stat ("files_written", 1) ; vh_stat ("frames_written", N) ;

	/* byte order: where the container records the order (or, for RAW, the reader is told it), the first 8 samples must sit in the
	** file serialised in the requested order.  Containers with one fixed order that accept and ignore the option (PVF) are only noted. */
	{	int e = format & SF_FORMAT_ENDMASK, sub = format & SF_FORMAT_SUBMASK, maj = format & SF_FORMAT_TYPEMASK ;
		int records = maj == SF_FORMAT_WAV || maj == SF_FORMAT_WAVEX || maj == SF_FORMAT_AIFF || maj == SF_FORMAT_AU || maj == SF_FORMAT_CAF || maj == SF_FORMAT_IRCAM
				|| maj == SF_FORMAT_MAT4 || maj == SF_FORMAT_MAT5 || maj == SF_FORMAT_NIST || maj == SF_FORMAT_PAF || maj == SF_FORMAT_RAW ;
		if ((e == SF_ENDIAN_LITTLE || e == SF_ENDIAN_BIG || e == SF_ENDIAN_CPU) && items >= 8 && (gen == G_NOISE || gen == G_RAMP) && !lz
			&& (sub == SF_FORMAT_PCM_16 || sub == SF_FORMAT_PCM_24 || sub == SF_FORMAT_PCM_32 || vh_is_fp (sub))
			&& maj != SF_FORMAT_SDS && !(maj == SF_FORMAT_PAF && sub == SF_FORMAT_PCM_24))
		{	unsigned char pat [64] ; int n = 0, i, w = 0 ;
			for (i = 0 ; i < 8 ; i++) { w = serialise (pat + n, wbuf, t, i, sub, e == SF_ENDIAN_BIG) ; n += w ; }
			if (w > 0)
			{	vh_stat ("byteorder_checked", 1) ;
				if (memmem (m.d, m.len, pat, n) == NULL)
				{	if (records) vh_viol (vh_key ("C01|byteorder|%s/%s", fn, vh_endname (format)), "first 8 samples not found in the file in %s order", vh_endname (format)) ;
					else vh_statf (1, "endian_option_accepted_but_ignored:%s", fn) ;
					}
				}
			}
		}

	s = vh_open_r (&m, format, ch, rate, &ri) ;
	if (s == NULL)
	{	vh_viol (vh_key ("C01|reopen-failed|%s", fn), "N=%ld: %s", N, sf_strerror (NULL)) ; free (wbuf) ; mv_free (&m) ; return ; }
	rbuf = vh_guard_alloc (items * ts, 0x5a) ;
	pmode = vh_rint (3) ;
	for (done = 0 ; done < items ; )
	{	long k = (pmode == 0) ? items - done : ch * (1 + vh_rint (pmode == 1 ? 9 : 5000)) ; sf_count_t r ;
		if (k > items - done) k = items - done ;
		r = vh_read_t (s, t, vh_rint (2), (char *) rbuf + done * ts, k, ch) ;
		if (r != k)
		{	long B = vh_block (format, ch, rate), got = (done + (r > 0 ? r : 0)) / ch ;
			int ct = 0 ; if (items >= 2 * ch) ct = !memcmp ((char *) wbuf + (items - ch) * ts, (char *) wbuf + (items - 2 * ch) * ts, ch * ts) ;
			vh_viol (vh_key ("C01|read-short|%s|%s%s", fn, (B > 1 && got >= N - N % B) ? "only-tail-block-missing" : "body-missing", ct ? "|last-two-frames-equal" : ""), "N=%ld ch=%d %s: read of %ld items at item %ld returned %ld (frames reported %ld)", N, ch, vh_tname [t], k, done, (long) r, (long) ri.frames) ; break ; }
		done += k ;
		}
	if (done == items)
	{	vh_stat ("items_compared", items) ;
		if (memcmp (wbuf, rbuf, items * ts) != 0)
		{	long i = 0, fr, B = vh_block (format, ch, rate), tail ; const char *where, *gc ; char tl [24] ;
			int sub = format & SF_FORMAT_SUBMASK ;
			while (i < items * ts && ((char *) wbuf) [i] == ((char *) rbuf) [i]) i++ ;
			if (sub >= SF_FORMAT_ALAC_16 && sub <= SF_FORMAT_ALAC_32) B = 4096 ;
			fr = i / ts / ch ; tail = N % B ;
			/* classify from the INPUT (not from library state): where the first wrong frame lies, how long the final partial block is, what kind of signal */
			where = (B > 1 && fr >= N - tail) ? "tail-block" : "body" ;
			snprintf (tl, sizeof (tl), "%s", B == 1 ? "" : tail == 0 ? "/tail0" : tail <= 8 ? "/tail<=8" : tail <= 32 ? "/tail<=32" : tail <= 128 ? "/tail<=128" : "/tail>128") ;
			gc = (gen == G_NOISE || gen == G_EXTREME || gen == G_LOWNOISE || gen == G_IMPULSE) ? "entropy" : "smooth" ;
			vh_viol (vh_key ("C01|data-differs|%s|%s%s|%s%s", fn, where, strcmp (where, "body") ? tl : "", gc, (2048 % ch) ? "|ch-not-dividing-2048" : ""),
				"N=%ld ch=%d %s gen=%s lowzero=%d: first difference at item %ld of %ld (frame %ld)", N, ch, vh_tname [t], gname [gen], lz, i / ts, items, fr) ;
			}
		else vh_stat ("roundtrips_exact", 1) ;
		}
	vh_check_inv (s, "reads") ;
	sf_close (s) ;
	free (wbuf) ; free (rbuf) ; mv_free (&m) ;
}

int main (int argc, char **argv)
{	int f, e, c, t, k, g ;
	static const int endians [] = { SF_ENDIAN_FILE, SF_ENDIAN_LITTLE, SF_ENDIAN_BIG, SF_ENDIAN_CPU } ;
	vh_init (argc, argv, "c01_roundtrip", "C01") ;
	vh_enum_formats () ;
	for (f = 0 ; f < vh_nfmts ; f++)
	{	int chs [12], nch ;
		if (vh_fmts [f].major == SF_FORMAT_SD2) continue ;		/* needs a real path (resource fork): covered by C14 */
		for (e = 0 ; e < 4 ; e++)
		{	int format = vh_fmts [f].format | endians [e] ;
			nch = vh_channels_for (format, chs, 12, vh_thorough) ;
			for (c = 0 ; c < nch ; c++) for (t = 0 ; t < T_N ; t++)
			{	int ch = chs [c], lz = lowzero_bits (format, t), B, rate = 8000, nN = 0 ; long Ns [40] ;
				if (lz < 0) continue ;
				B = vh_block (format, ch, rate) ;
				if ((format & SF_FORMAT_SUBMASK) >= SF_FORMAT_ALAC_16 && (format & SF_FORMAT_SUBMASK) <= SF_FORMAT_ALAC_32) B = 4096 ;
				Ns [nN++] = 0 ; Ns [nN++] = 1 ; Ns [nN++] = 2 ; Ns [nN++] = 3 ; Ns [nN++] = 7 ;
				if (B > 1) { Ns [nN++] = B - 1 ; Ns [nN++] = B ; Ns [nN++] = B + 1 ; Ns [nN++] = 2 * B - 1 ; Ns [nN++] = 2 * B ; Ns [nN++] = 2 * B + 1 ; }
				/* the 8 KiB staging buffers hold 8192/width items: straddle them for every width */
				Ns [nN++] = 1023 / ch + 1 ; Ns [nN++] = 2048 / ch ; Ns [nN++] = 2049 / ch + 1 ; Ns [nN++] = 4096 / ch ; Ns [nN++] = 4097 / ch + 1 ; Ns [nN++] = 8193 / ch + 1 ;
				Ns [nN++] = -1 ; Ns [nN++] = -1 ;				/* random */
				if (vh_thorough) { Ns [nN++] = -2 ; Ns [nN++] = -2 ; Ns [nN++] = -1 ; Ns [nN++] = -1 ; }
				if (ch > 64) nN = 8 ;
				for (k = 0 ; k < nN ; k++) for (g = 0 ; g < (vh_thorough ? G_N : 3) ; g++)
				{	if (!vh_case ("%s/%s ch=%d %s Nidx=%d g=%d", vh_fname (format), vh_endname (format), ch, vh_tname [t], k, g)) continue ;
					{	long N = Ns [k] ; int gen = vh_thorough ? g : (int) ((vh_case_idx / 3 + vh_seed0 + 2 * g) % G_N) ;
						if (N == -1) N = vh_rint (ch > 8 ? 300 : 9000) ; else if (N == -2) N = vh_rint (ch > 8 ? 3000 : 200000 / ch) ;
						if (ch > 64 && N > 40) N = 40 ;
						vh_distinct (vh_fnv (0, &format, 4) ^ (ch * 1315423911u) ^ ((uint64_t) t << 40) ^ ((uint64_t) N << 8) ^ ((uint64_t) gen << 56)) ;
						vh_statf (1, "fmt:%s", vh_fname (format)) ;
						vh_statf (1, "type:%s", vh_tname [t]) ;
						vh_sample ("%s endian=%s ch=%d type=%s N=%ld gen=%s lowzero=%d", vh_fname (format), vh_endname (format), ch, vh_tname [t], N, gname [gen], lz) ;
						run_case (format, ch, rate, t, lz, gen, N) ;
						}
					}
				}
			}
		}
	return vh_finish () ;
}
