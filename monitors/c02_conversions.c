/* C02 — sample-type conversions follow the documented rules.
** Oracle: an independent conversion model written from docs/api.md (Note 1/2) and docs/command.md.
**   write tests: values of type A are written through the library; the STORED CODES are decoded from the file image by the
**                monitor's own byte-level reader and compared with the model;
**   read tests : the data section of a library-written file is overwritten in place with codes chosen by the monitor (own
**                serialisation), then read through the four APIs and compared with the model.
** So the write path and the read path are judged separately, never against each other.
*/
#include "vh.h"
#include "g711ref.h"

typedef struct { int format, w, is_u8, is_fp, is_g711, alaw, big ; sf_count_t doff ; const char *fn ; } ENC ;

/* ---- find data offset and stored byte order of a (format) by writing one probe frame */
static int probe (int format, ENC *e)
{	MEMF m ; SNDFILE *s ; SF_INFO ri ; SF_VERIF_STATE st ; int sub = format & SF_FORMAT_SUBMASK ; unsigned char *p ;
	memset (e, 0, sizeof (*e)) ; e->format = format ; e->fn = vh_fname (format) ;
	e->is_fp = vh_is_fp (sub) ; e->is_g711 = vh_is_g711 (sub) ; e->alaw = sub == SF_FORMAT_ALAW ; e->is_u8 = sub == SF_FORMAT_PCM_U8 ;
	e->w = e->is_g711 ? 8 : vh_bits (format) ;
	memset (&m, 0, sizeof (m)) ;
	s = vh_open_w (&m, format, 1, 8000, NULL) ; if (!s) return -1 ;
	if (e->is_fp) { double d ; uint64_t b = 0x3FF0010203040506ULL ; float f ; uint32_t fb = 0x3F810203 ; memcpy (&d, &b, 8) ; memcpy (&f, &fb, 4) ; if (sub == SF_FORMAT_FLOAT) sf_write_float (s, &f, 1) ; else sf_write_double (s, &d, 1) ; }
	else { int v = 0x01020304 ; sf_write_int (s, &v, 1) ; }
	sf_close (s) ;
	s = vh_open_r (&m, format, 1, 8000, &ri) ; if (!s) { mv_free (&m) ; return -2 ; }
	vh_state (s, &st) ; sf_close (s) ; e->doff = st.dataoffset ;
	if (e->doff < 0 || e->doff + e->w / 8 > m.len) { mv_free (&m) ; return -3 ; }
	p = m.d + e->doff ;
	if (e->is_fp) e->big = (p [0] == 0x3F) ; else if (e->w >= 16) e->big = (p [0] == 0x01) ;
	mv_free (&m) ; return 0 ;
}
static int64_t get_code (const ENC *e, const unsigned char *p)		/* own reader: bytes -> signed code */
{	int n = e->w / 8, k ; uint32_t u = 0 ;
	for (k = 0 ; k < n ; k++) u |= (uint32_t) p [e->big ? n - 1 - k : k] << (8 * k) ;
	if (e->is_g711) return u ;
	if (e->is_u8) return (int64_t) u - 128 ;
	if (n == 1) return (int8_t) u ; if (n == 2) return (int16_t) u ; if (n == 3) return ((int32_t) (u << 8)) >> 8 ; return (int32_t) u ; }
static void put_code (const ENC *e, unsigned char *p, int64_t c)
{	int n = e->w / 8, k ; uint32_t u = (uint32_t) c ; if (e->is_u8) u = (uint32_t) (c + 128) ;
	for (k = 0 ; k < n ; k++) p [e->big ? n - 1 - k : k] = (u >> (8 * k)) & 0xff ; }
static void get_fp (const ENC *e, const unsigned char *p, void *out) { int n = e->w / 8, k ; unsigned char b [8] ; for (k = 0 ; k < n ; k++) b [k] = p [e->big ? n - 1 - k : k] ; memcpy (out, b, n) ; }
static void put_fp (const ENC *e, unsigned char *p, const void *in) { int n = e->w / 8, k ; unsigned char b [8] ; memcpy (b, in, n) ; for (k = 0 ; k < n ; k++) p [e->big ? n - 1 - k : k] = b [k] ; }

/* ---- value domains */
static int intmin_reported ;
static long dom_n ; static short *dom_s ; static int *dom_i ; static float *dom_f ; static double *dom_d ;
static int cmp_d (const void *a, const void *b) { double x = *(const double *) a, y = *(const double *) b ; return x < y ? -1 : x > y ; }
static void build_domain (int stride, int w, int fpmode, int g711)		/* g711: 0 no, 1 mu-law, 2 A-law */
/* was: (int stride, int w, int fpmode) */		/* fpmode 0: [-1,1) normalised; 1: integer valued (norm off); 2: incl. out of range (clipping) */
{	long i, n = 0, cap = 65536 / stride + 70000 ; double *d ;
	free (dom_s) ; free (dom_i) ; free (dom_f) ; free (dom_d) ;
	dom_s = malloc (2 * cap) ; dom_i = malloc (4 * cap) ; dom_f = malloc (4 * cap) ; dom_d = d = malloc (8 * cap) ;
	/* shorts: every stride-th plus boundaries; ints: their images and random; fp: grid + ties + random */
	for (i = -32768 ; i <= 32767 ; i += stride) d [n++] = (double) i ;
	{	static const int b [] = { -32768, -32767, -32766, -1, 0, 1, 2, 3, 127, 128, 129, 255, 256, 257, -127, -128, -129, -255, -256, -257, 32766, 32767, 16384, -16384, 8191, 8192, -8191, -8192, -8193 } ; for (i = 0 ; i < 29 ; i++) d [n++] = b [i] ; }
	dom_n = n ;
	for (i = 0 ; i < n ; i++)
	{	int s = (int) d [i] ; double x ; double M = ldexp (1.0, w - 1) - 1 ;
		dom_s [i] = (short) s ;
		dom_i [i] = (i % 3 == 0) ? s * 65536 : (i % 3 == 1) ? (int) ((uint32_t) s * 65536u + (uint32_t) (vh_rnd () & 0xffff)) : (int32_t) vh_rnd () ;
		if (fpmode == 1) { double lim = ldexp (1.0, w - 1) ; x = (i % 2) ? s : floor ((vh_rnd () % 2000001 / 1000000.0 - 1.0) * (lim > 16777216 ? 16777216 : lim)) ; if (x >= lim) x = lim - 1 ; if (x < -lim) x = -lim ; }
		else switch (i % 6)
		{	case 0 : x = s / 32768.0 ; break ;												/* 16-bit grid */
			case 1 : x = (floor (s * M / 32768.0) + 0.5) / M ; break ;						/* (near) rounding ties of x*M */
			case 2 : x = ((int32_t) vh_rnd ()) / 2147483648.0 ; break ;						/* uniform */
			case 3 : x = ldexp (1.0, -(int) (vh_rnd () % 40)) * ((vh_rnd () & 1) ? 1 : -1) ; break ;	/* powers of two */
			case 4 : x = (s >= 0 ? 1 : -1) * (1.0 - ldexp (1.0, -(int) (1 + vh_rnd () % 30))) ; break ;	/* approaching +-1 */
			default : x = s / 32767.0 ; break ;
			}
		if (fpmode == 2 && i % 7 == 0) { static const double o [] = { 1.0, -1.0, 1.5, -1.5, 2.0, -2.0, 1e9, -1e9, 1.0000001, -1.0000001, 0.99999999, 123.0 } ; x = o [vh_rint (12)] ; }
		if (fpmode != 2 && fpmode != 1) { if (x >= 1.0) x = 0.99999994 ; if (x < -1.0) x = -1.0 ; }
		d [i] = x ;
		}
	if (g711 && fpmode != 1)
	{	/* both sides of every rounding tie that sits just under a decision level of the codec, on the codec's own grid (see the write check) */
		double G = 32767.0 / (g711 == 2 ? 16 : 4) ; long k, kmax = g711 == 2 ? 2047 : 8191 ; int sg, dl ; static const double delta [] = { -0.002, 0.002, -0.03, 0.03 } ;
		for (k = 1 ; k <= kmax ; k++)
		{	if (g711 == 2 ? ref_alaw_enc13 (0, (int) (2 * k)) == ref_alaw_enc13 (0, (int) (2 * k - 2)) : ref_ulaw_enc14 (0, (int) k) == ref_ulaw_enc14 (0, (int) k - 1)) continue ;
			for (sg = -1 ; sg <= 1 ; sg += 2) for (dl = 0 ; dl < 4 && n < cap ; dl++)
			{	double x = sg * (k - 0.5 + delta [dl]) / G ; int sv = (int) lrint (x * 32767.0) ;
				d [n] = x ; dom_s [n] = (short) sv ; dom_i [n] = sv * 65536 ; n++ ; }
			}
		dom_n = n ;
		}
	if (fpmode == 2) qsort (d, n, sizeof (double), cmp_d) ;		/* sorted: lets us check monotonicity under clipping */
	for (i = 0 ; i < n ; i++) dom_f [i] = (float) d [i] ;
}

/* ---- write tests */
static void write_test (const ENC *e, int t, int norm, int clip, int scale_if, int stride)
{	MEMF m ; SNDFILE *s ; long i, n ; int fpmode = (t >= T_FLOAT) ? (clip ? 2 : norm ? 0 : 1) : 0 ; int64_t prev = INT64_MIN ; long bad = 0 ;
	const char *cfg = vh_key ("%s%s%s", norm ? "norm" : "raw", clip ? "+clip" : "", scale_if ? "+scale_int_float" : "") ; char cfgb [48] ; snprintf (cfgb, sizeof (cfgb), "%s", cfg) ;
	build_domain (stride, e->is_g711 ? 16 : e->w, fpmode, e->is_g711 ? 1 + e->alaw : 0) ; n = dom_n ; intmin_reported = 0 ;
	if (t == T_INT) dom_i [7] = INT32_MIN ;
	memset (&m, 0, sizeof (m)) ;
	s = vh_open_w (&m, e->format, 1, 8000, NULL) ; if (!s) return ;
	if (vh_rnd () & 1)		/* half the cases reach their settings through the opposite ones first */
	{	sf_command (s, SFC_SET_NORM_FLOAT, NULL, !norm) ; sf_command (s, SFC_SET_NORM_DOUBLE, NULL, !norm) ;
		sf_command (s, SFC_SET_CLIPPING, NULL, !clip) ; sf_command (s, SFC_SET_SCALE_INT_FLOAT_WRITE, NULL, !scale_if) ; }
	sf_command (s, SFC_SET_NORM_FLOAT, NULL, norm) ; sf_command (s, SFC_SET_NORM_DOUBLE, NULL, norm) ;
	sf_command (s, SFC_SET_CLIPPING, NULL, clip) ; sf_command (s, SFC_SET_SCALE_INT_FLOAT_WRITE, NULL, scale_if) ;
	if (vh_write_t (s, t, (int) (vh_rnd () & 1), t == T_SHORT ? (void *) dom_s : t == T_INT ? (void *) dom_i : t == T_FLOAT ? (void *) dom_f : (void *) dom_d, n, 1) != n)
	{	vh_viol (vh_key ("C02|write-count|%s|%s", e->fn, vh_tname [t]), "write of %ld %s values failed: %s", n, vh_tname [t], sf_strerror (s)) ; sf_close (s) ; mv_free (&m) ; return ; }
	sf_close (s) ;
	if (e->doff + n * (e->w / 8) > m.len) { vh_viol (vh_key ("C02|file-too-short|%s", e->fn), "expected %ld samples after offset %ld, file has %ld bytes", n, (long) e->doff, (long) m.len) ; mv_free (&m) ; return ; }
	for (i = 0 ; i < n && bad < 3 ; i++)
	{	const unsigned char *p = m.d + e->doff + i * (e->w / 8) ; char vs [64] ; int ok = 1 ; char exp [96] = "" ;
		if (e->is_fp)
		{	double want, got ; float gf ;
			switch (t)
			{	case T_SHORT : want = scale_if ? dom_s [i] / 32768.0 : dom_s [i] ; snprintf (vs, 64, "%d", dom_s [i]) ; break ;
				case T_INT : want = scale_if ? dom_i [i] / 2147483648.0 : dom_i [i] ; snprintf (vs, 64, "%d", dom_i [i]) ; break ;
				case T_FLOAT : want = dom_f [i] ; snprintf (vs, 64, "%.9g", dom_f [i]) ; break ;
				default : want = dom_d [i] ; snprintf (vs, 64, "%.17g", dom_d [i]) ; }
			if (e->w == 32) { float wf = (float) want ; get_fp (e, p, &gf) ; ok = !memcmp (&gf, &wf, 4) ; got = gf ; if (t == T_INT && !scale_if) { /* int -> float: one rounding of the 32-bit value */ ok = (gf == (float) dom_i [i]) ; } }
			else { get_fp (e, p, &got) ; ok = !memcmp (&got, &want, 8) ; }
			snprintf (exp, sizeof (exp), "stored %.17g, model %.17g", got, want) ;
			}
		else if (e->is_g711)
		{	unsigned c = (unsigned) get_code (e, p), r1 = 256, r2 = 256, r3 = 256 ; int neg ; long mag ; int sh = e->alaw ? 3 : 2 ;
			if (t == T_SHORT) { neg = dom_s [i] < 0 ; mag = labs ((long) dom_s [i]) >> sh ; snprintf (vs, 64, "%d", dom_s [i]) ; r1 = e->alaw ? ref_alaw_enc13 (neg, (int) mag) : ref_ulaw_enc14 (neg, (int) mag) ; }
			else if (t == T_INT) { neg = dom_i [i] < 0 ; mag = (long) (llabs ((long long) dom_i [i]) >> (16 + sh)) ; snprintf (vs, 64, "%d", dom_i [i]) ; r1 = e->alaw ? ref_alaw_enc13 (neg, (int) mag) : ref_ulaw_enc14 (neg, (int) mag) ; }
			else
			{	/* float/double input: the docs give no G.711 formula.  Accept any code whose reconstruction level is as near to the scaled input as the
				** nearest level, up to one LSB of the codec's input grid (A-law 12-bit grid = 16, mu-law 14-bit grid = 4 on the 16-bit scale): rounding the
				** input to that grid before quantising may cross a decision boundary by at most half an LSB on either side. */
				double x = t == T_FLOAT ? dom_f [i] : dom_d [i], tt = fabs (x) * (norm ? 32767.0 : 1.0) / (1 << sh) ; long k ;
				snprintf (vs, 64, "%.17g", x) ; neg = x < 0 ;
				if (norm ? (fabs (x) >= 1.0) : (fabs (x) >= 32768.0)) continue ;		/* out of range input to G.711 is outside the property's domain */
				/* tt = magnitude on the codec's input scale (13-bit A-law, 14-bit mu-law).  The docs give no formula for float input: accept the G.711
				** code of any integer within 1 of tt (rounding to the codec's input grid before the truncating G.711 quantiser) */
				/* the codec's own input grid: A-law ignores the lowest of its 12 magnitude bits (smallest step 2), so its grid is 16 on the 16-bit scale; mu-law's is 4.
				** "Nearest integer to x*(2^15-1)" followed by the truncating G.711 quantiser gives floor(u) on that grid; rounding straight to the grid gives
				** lrint(u).  Both are accepted, nothing else: a scale factor other than 2^15-1 moves u across a decision level for inputs just under a tie. */
				{	double u = e->alaw ? tt / 2 : tt, e1 = u * (t == T_FLOAT ? 3e-7 : 1e-12) + 1e-9 ; int mul = e->alaw ? 2 : 1 ;
					r1 = 256 + 1 ;
					for (k = (long) floor (u - e1) ; k <= (long) floor (u + 0.5 + e1) ; k++)
					{	if (k < 0) continue ;
						if (c == (e->alaw ? ref_alaw_enc13 (neg, (int) (k * mul)) : ref_ulaw_enc14 (neg, (int) k))) r1 = c ;
						if (k == 0 && c == (e->alaw ? ref_alaw_enc13 (!neg, 0) : ref_ulaw_enc14 (!neg, 0))) r1 = c ;
						}
					}
				snprintf (exp, sizeof (exp), "stored code 0x%02x; input magnitude on the codec scale %.3f; G.711 code of round() is 0x%02x", c, tt, e->alaw ? ref_alaw_enc13 (neg, (int) lrint (tt)) : ref_ulaw_enc14 (neg, (int) lrint (tt))) ;
				}
			ok = (c == r1 || c == r2 || c == r3) ;
			if (t < T_FLOAT) snprintf (exp, sizeof (exp), "stored code 0x%02x, G.711 reference 0x%02x", c, r1) ;
			if (!ok && t == T_INT && dom_i [i] == INT32_MIN) { if (!intmin_reported++) vh_viol (vh_key ("C02|write|%s|int|INT_MIN", e->fn), "sf_write_int (INT_MIN): %s", exp) ; continue ; }
			}
		else
		{	int64_t c = get_code (e, p), lo, hi, cmin = -((int64_t) 1 << (e->w - 1)), cmax = ((int64_t) 1 << (e->w - 1)) - 1 ;
			if (t == T_SHORT) { lo = hi = e->w >= 16 ? (int64_t) dom_s [i] << (e->w - 16) : (int64_t) dom_s [i] >> (16 - e->w) ; snprintf (vs, 64, "%d", dom_s [i]) ; }
			else if (t == T_INT) { lo = hi = (int64_t) dom_i [i] >> (32 - e->w) ; snprintf (vs, 64, "%d", dom_i [i]) ; }
			else
			{	long double x = t == T_FLOAT ? (long double) dom_f [i] : (long double) dom_d [i], M = ldexpl (1.0L, e->w - 1) - 1, P = ldexpl (1.0L, e->w - 1), eps = t == T_FLOAT ? ldexpl (1.0L, -22) : ldexpl (1.0L, -50), a, b, tol ;
				snprintf (vs, 64, "%.17Lg", x) ;
				if (!norm) { lo = hi = (int64_t) x ; }									/* integer-valued input passes unscaled */
				else if (!clip) { if (x >= 1 || x < -1) continue ; a = x * M ; tol = 0.5L + eps * fabsl (a) + 1e-9L ; lo = (int64_t) ceill (a - tol) ; hi = (int64_t) floorl (a + tol) ; }
				else if (x >= 1) { lo = hi = cmax ; }									/* saturate, never wrap */
				else if (x <= -1) { lo = hi = cmin ; }
				else { a = x * M ; b = x * P ; if (a > b) { long double z = a ; a = b ; b = z ; } eps = ldexpl (1.0L, -22) ;	/* the clipping converters round through single precision even for double input */
					tol = 0.5L + eps * (fabsl (a) > fabsl (b) ? fabsl (a) : fabsl (b)) + 1e-9L ; lo = (int64_t) ceill (a - tol) ; hi = (int64_t) floorl (b + tol) ; if (hi > cmax) hi = cmax ; if (lo < cmin) lo = cmin ; }
				if (clip) { if (c < prev) { ok = 0 ; snprintf (exp, sizeof (exp), "code %lld after %lld: not monotone in the input", (long long) c, (long long) prev) ; } prev = c ; }
				}
			if (ok) { ok = (c >= lo && c <= hi) ; snprintf (exp, sizeof (exp), "stored code %lld, model [%lld, %lld]", (long long) c, (long long) lo, (long long) hi) ; }
			}
		if (!ok) { bad++ ; vh_viol (vh_key ("C02|write|%s|%s|%s", e->fn, vh_tname [t], cfgb), "%s %s -> %s-bit%s: value %s: %s", vh_tname [t], cfgb, e->is_fp ? "fp" : e->is_g711 ? "g711" : "pcm", e->big ? " BE" : " LE", vs, exp) ; }
		}
	vh_stat ("write_conversions_checked", n) ;
	mv_free (&m) ;
}

/* ---- read tests: overwrite the data section with the monitor's own codes, read through the API */
static void read_test (const ENC *e, int t, int norm, int scale_fi, int clip, int stride)
{	MEMF m ; SNDFILE *s ; SF_INFO ri ; long i, n, bad = 0 ; int64_t *codes ; double *fpv = NULL ; void *out ; int bw = e->w / 8 ;
	char cfgb [48] ; snprintf (cfgb, sizeof (cfgb), "%s%s%s", norm ? "norm" : "raw", scale_fi ? "+scale_float_int" : "", clip ? "+clip" : "") ;
	/* choose codes */
	if (e->is_g711) n = 256 ; else if (e->w == 8) n = 256 ; else n = 65536 / stride + 64 ;
	codes = malloc (sizeof (int64_t) * n) ; if (e->is_fp) fpv = malloc (sizeof (double) * n) ;
	for (i = 0 ; i < n ; i++)
	{	if (e->is_g711) codes [i] = i ; else if (e->w == 8) codes [i] = i - 128 ;
		else if (e->w == 16) codes [i] = (i * stride < 65536) ? i * stride - 32768 : (int16_t) vh_rnd () ;
		else if (!e->is_fp) { int64_t top = (i * stride < 65536) ? i * stride - 32768 : (int16_t) vh_rnd () ; codes [i] = (top << (e->w - 16)) | ((i % 3) ? (int64_t) (vh_rnd () & (((int64_t) 1 << (e->w - 16)) - 1)) : 0) ; if (i == 1) codes [i] = -((int64_t) 1 << (e->w - 1)) ; if (i == 2) codes [i] = ((int64_t) 1 << (e->w - 1)) - 1 ; }
		else
		{	double x ; switch (i % 6) { case 0 : x = (i * stride % 65536 - 32768) / 32768.0 ; break ; case 1 : x = ((int32_t) vh_rnd ()) / 2147483648.0 ; break ; case 2 : x = (double) ((int) (vh_rnd () % 65536) - 32768) ; break ;
				case 3 : x = (int) (vh_rnd () % 2001) - 1000 + 0.5 ; break ; case 4 : x = ldexp (1.0, -(int) (vh_rnd () % 60)) * ((vh_rnd () & 1) ? -1 : 1) ; break ; default : x = ((int32_t) vh_rnd ()) / 65536.0 ; }
			if (e->w == 32) x = (float) x ; fpv [i] = x ; }
		}
	/* a file of n zero frames written by the library, then patched */
	memset (&m, 0, sizeof (m)) ;
	s = vh_open_w (&m, e->format, 1, 8000, NULL) ; if (!s) { free (codes) ; free (fpv) ; return ; }
	{	short *z = calloc (n, 2) ; sf_write_short (s, z, n) ; free (z) ; } sf_close (s) ;
	if (e->doff + n * bw > m.len) { mv_free (&m) ; free (codes) ; free (fpv) ; return ; }
	for (i = 0 ; i < n ; i++)
	{	unsigned char *p = m.d + e->doff + i * bw ;
		if (e->is_fp) { if (e->w == 32) { float f = (float) fpv [i] ; put_fp (e, p, &f) ; } else put_fp (e, p, &fpv [i]) ; } else if (e->is_g711) *p = (unsigned char) codes [i] ; else put_code (e, p, codes [i]) ; }
	s = vh_open_r (&m, e->format, 1, 8000, &ri) ; if (!s) { vh_viol (vh_key ("C02|reopen|%s", e->fn), "%s", sf_strerror (NULL)) ; mv_free (&m) ; free (codes) ; free (fpv) ; return ; }
	sf_command (s, SFC_SET_NORM_FLOAT, NULL, norm) ; sf_command (s, SFC_SET_NORM_DOUBLE, NULL, norm) ; sf_command (s, SFC_SET_CLIPPING, NULL, clip) ;
	if (scale_fi) sf_command (s, SFC_SET_SCALE_FLOAT_INT_READ, NULL, SF_TRUE) ;
	else if (vh_rnd () & 1)
	{	/* a switch that was on and is off again is off: half the unscaled cases reach the read through on -> off (and norm through its opposite first) */
		sf_command (s, SFC_SET_SCALE_FLOAT_INT_READ, NULL, SF_TRUE) ; sf_command (s, SFC_SET_SCALE_FLOAT_INT_READ, NULL, SF_FALSE) ;
		sf_command (s, SFC_SET_NORM_FLOAT, NULL, !norm) ; sf_command (s, SFC_SET_NORM_DOUBLE, NULL, !norm) ; sf_command (s, SFC_SET_CLIPPING, NULL, !clip) ;
		sf_command (s, SFC_SET_NORM_FLOAT, NULL, norm) ; sf_command (s, SFC_SET_NORM_DOUBLE, NULL, norm) ; sf_command (s, SFC_SET_CLIPPING, NULL, clip) ;
		snprintf (cfgb + strlen (cfgb), sizeof (cfgb) - strlen (cfgb), "+toggled") ;
		}
	out = vh_guard_alloc ((size_t) n * 8, 0) ;
	if (vh_read_t (s, t, (int) (vh_rnd () & 1), out, n, 1) != n) { vh_viol (vh_key ("C02|read-count|%s|%s", e->fn, vh_tname [t]), "short read") ; sf_close (s) ; free (out) ; mv_free (&m) ; free (codes) ; free (fpv) ; return ; }
	sf_close (s) ;
	{	double fmax = 0 ; if (e->is_fp) for (i = 0 ; i < n ; i++) if (fabs (fpv [i]) > fmax) fmax = fabs (fpv [i]) ;
	for (i = 0 ; i < n && bad < 3 ; i++)
	{	int ok = 1 ; char exp [128] = "", cs [48] ;
		if (e->is_fp)
		{	double x = fpv [i] ; snprintf (cs, sizeof (cs), "%.17g", x) ;
			if (t == T_FLOAT) { float g = ((float *) out) [i], wv = (float) x ; ok = !memcmp (&g, &wv, 4) ; snprintf (exp, sizeof (exp), "got %.9g want %.9g", g, wv) ; }
			else if (t == T_DOUBLE) { double g = ((double *) out) [i] ; ok = !memcmp (&g, &x, 8) ; snprintf (exp, sizeof (exp), "got %.17g want %.17g", g, x) ; }
			else
			{	int64_t g = t == T_SHORT ? ((short *) out) [i] : ((int *) out) [i], lim = t == T_SHORT ? 32767 : 2147483647 ;
				if (!scale_fi)
				{	/* documented default: integer reads of float data are unscaled: the nearest integer (ties either way; the converters may work in single
					** precision, so allow 2^-23 relative), saturating at the type's extremes when clipping is on; unclipped out-of-range is unspecified */
					if (x >= (double) lim + 0.5) { if (clip) { ok = g == lim ; snprintf (exp, sizeof (exp), "got %lld, clipping must saturate at %lld", (long long) g, (long long) lim) ; } }
					else if (x <= -(double) lim - 1.5) { if (clip) { ok = g == -lim - 1 ; snprintf (exp, sizeof (exp), "got %lld, clipping must saturate at %lld", (long long) g, (long long) (-lim - 1)) ; } }
					else if (fabs (x) >= (double) lim - 130 && t == T_INT) { ok = fabs ((double) g - x) <= 0.5 + fabs (x) * ldexp (1.0, -22) || (clip && (g == lim || g == -lim - 1)) ; snprintf (exp, sizeof (exp), "got %lld want round(%.17g)", (long long) g, x) ; }
					else { ok = fabs ((double) g - x) <= 0.5 + fabs (x) * ldexp (1.0, -23) + 1e-9 ; snprintf (exp, sizeof (exp), "got %lld want round(%.17g)", (long long) g, x) ; }
					}
				else
				{	/* scaled: full scale of the file maps to full scale of the integer type; the docs give no formula: proportionality within 2 LSB + 1e-4 */
					double want = fmax > 0 ? x / fmax * lim : 0 ; ok = fabs ((double) g - want) <= 2.0 + fabs (want) * 1e-4 ; snprintf (exp, sizeof (exp), "got %lld want about %.3f (max %.9g)", (long long) g, want, fmax) ; }
				}
			}
		else
		{	int64_t c = e->is_g711 ? (e->alaw ? ref_alaw_dec ((unsigned) codes [i]) : ref_ulaw_dec ((unsigned) codes [i])) : codes [i] ; int w = e->is_g711 ? 16 : e->w ;
			snprintf (cs, sizeof (cs), e->is_g711 ? "0x%02llx" : "%lld", (long long) codes [i]) ;
			if (t == T_SHORT) { short g = ((short *) out) [i] ; int64_t wv = w <= 16 ? c << (16 - w) : c >> (w - 16) ; ok = g == wv ; snprintf (exp, sizeof (exp), "got %d want %lld", g, (long long) wv) ; }
			else if (t == T_INT) { int g = ((int *) out) [i] ; int64_t wv = c << (32 - w) ; ok = g == wv ; snprintf (exp, sizeof (exp), "got %d want %lld", g, (long long) wv) ; }
			else if (t == T_FLOAT) { float g = ((float *) out) [i], wv = norm ? (float) ldexp ((double) (float) c, -(w - 1)) : (float) c ; ok = !memcmp (&g, &wv, 4) || g == wv ; snprintf (exp, sizeof (exp), "got %.9g want %.9g", g, wv) ; }
			else { double g = ((double *) out) [i], wv = norm ? ldexp ((double) c, -(w - 1)) : (double) c ; ok = g == wv ; snprintf (exp, sizeof (exp), "got %.17g want %.17g", g, wv) ; }
			}
		if (!ok) { bad++ ; vh_viol (vh_key ("C02|read|%s|%s|%s", e->fn, vh_tname [t], cfgb), "stored %s read as %s (%s,%s): %s", cs, vh_tname [t], cfgb, e->big ? "BE" : "LE", exp) ; }
		} }
	vh_stat ("read_conversions_checked", n) ;
	free (out) ; free (codes) ; free (fpv) ; mv_free (&m) ;
}

/* ---- queries interleaved with reads must not disturb the conversion settings (cross-call agreement) */
static void settings_stability (const ENC *e)
{	MEMF m ; SNDFILE *s ; SF_INFO ri ; double a [8], b [8], mx ; int k ;
	if (vh_make_file (&m, e->format, 1, 8000, 64, 1)) { mv_free (&m) ; return ; }
	for (k = 0 ; k < 4 ; k++)
	{	int norm = k & 1, cmd = (k & 2) ? SFC_CALC_NORM_SIGNAL_MAX : SFC_CALC_SIGNAL_MAX ;
		s = vh_open_r (&m, e->format, 1, 8000, &ri) ; if (!s) break ;
		sf_command (s, SFC_SET_NORM_DOUBLE, NULL, norm) ; sf_read_double (s, a, 8) ; sf_seek (s, 0, SEEK_SET) ;
		sf_command (s, cmd, &mx, sizeof (mx)) ; sf_command (s, SFC_SET_SCALE_FLOAT_INT_READ, NULL, SF_TRUE) ; sf_command (s, SFC_SET_SCALE_FLOAT_INT_READ, NULL, SF_FALSE) ;
		sf_read_double (s, b, 8) ; vh_stat ("settings_stability_checked", 1) ;
		if (memcmp (a, b, sizeof (a))) vh_viol (vh_key ("C02|settings-disturbed|%s", e->fn), "norm_double=%d: the same 8 frames read %.9g.. before and %.9g.. after SFC_CALC_*SIGNAL_MAX / SET_SCALE_FLOAT_INT_READ", norm, a [1], b [1]) ;
		if (sf_command (s, SFC_GET_NORM_DOUBLE, NULL, 0) != norm) vh_viol (vh_key ("C02|norm-setting-changed|%s", e->fn), "SFC_GET_NORM_DOUBLE reports %d after queries, was set to %d", sf_command (s, SFC_GET_NORM_DOUBLE, NULL, 0), norm) ;
		sf_close (s) ;
		}
	mv_free (&m) ;
}

int main (int argc, char **argv)
{	int f, en, t ; static const int endians [] = { SF_ENDIAN_FILE, SF_ENDIAN_LITTLE, SF_ENDIAN_BIG } ;
	vh_init (argc, argv, "c02_conversions", "C02") ;
	vh_enum_formats () ;
	for (f = 0 ; f < vh_nfmts ; f++) for (en = 0 ; en < 3 ; en++)
	{	int format = vh_fmts [f].format | endians [en], sub = vh_fmts [f].sub, maj = vh_fmts [f].major, stride ; ENC e ;
		if (!(vh_is_pcm_int (sub) || vh_is_fp (sub) || vh_is_g711 (sub)) || !vh_sample_granular (format)) continue ;
		if (maj == SF_FORMAT_SD2) continue ;
		if (!vh_accepts (format, 1, 8000)) continue ;
		stride = (vh_thorough || maj == SF_FORMAT_RAW || maj == SF_FORMAT_WAV) ? 1 : 7 ;
		if (probe (format, &e) != 0) { if (vh_case ("%s/%s probe", vh_fname (format), vh_endname (format))) vh_viol (vh_key ("C02|probe-failed|%s", vh_fname (format)), "cannot locate the data section") ; continue ; }
		for (t = 0 ; t < T_N ; t++)
		{	int k, nk = t >= T_FLOAT ? (e.is_fp ? 1 : e.is_g711 ? 2 : 3) : (e.is_fp ? 2 : 1) ;
			for (k = 0 ; k < nk ; k++)
			{	int norm = (t >= T_FLOAT && !e.is_fp) ? (k != 1) : 1, clip = (t >= T_FLOAT && !e.is_fp && !e.is_g711 && k == 2), sif = (t < T_FLOAT && e.is_fp && k == 1) ;
				if (!vh_case ("%s/%s write %s cfg=%d", vh_fname (format), vh_endname (format), vh_tname [t], k)) continue ;
				vh_distinct (vh_fnv (0, &format, 4) ^ ((uint64_t) t << 40) ^ ((uint64_t) k << 44) ^ 1) ;
				vh_statf (1, "enc:%s", vh_short_sub (sub)) ;
				vh_sample ("%s %s: write %s (norm=%d clip=%d scale_int_float=%d), %d values, stored codes decoded from the file image", vh_fname (format), e.big ? "BE" : "LE", vh_tname [t], norm, clip, sif, 65536 / stride) ;
				write_test (&e, t, norm, clip, sif, stride) ;
				}
			nk = t >= T_FLOAT ? (e.is_fp ? 1 : 2) : (e.is_fp ? 3 : 1) ;
			for (k = 0 ; k < nk ; k++)
			{	int norm = (t >= T_FLOAT && !e.is_fp) ? (k == 0) : 1, sfi = (t < T_FLOAT && e.is_fp && k == 1), clip = (t < T_FLOAT && e.is_fp && k == 2) ;
				if (!vh_case ("%s/%s read %s cfg=%d", vh_fname (format), vh_endname (format), vh_tname [t], k)) continue ;
				vh_distinct (vh_fnv (0, &format, 4) ^ ((uint64_t) t << 40) ^ ((uint64_t) k << 44) ^ 2) ;
				read_test (&e, t, norm, sfi, clip, stride) ;
				}
			}
		if (vh_case ("%s/%s settings stability", vh_fname (format), vh_endname (format))) { vh_distinct (vh_fnv (0, &format, 4) ^ 3) ; settings_stability (&e) ; }
		}
	return vh_finish () ;
}
