/* C03 — arbitrary input bytes never cause memory errors, hangs or insane info.
** Inputs: structure-aware mutations of a corpus the library writes itself (every writable format, with and without
** metadata/chunks), plus unconstrained bytes.  Routes: virtual I/O, descriptor (memfd), non-seekable pipe.
** Oracles: AddressSanitizer/UBSan (crash attributed to the case by the driver), exact-size caller buffers with canaries,
** the SF_INFO sanity predicate, NULL => error code and message, invariant hook after every call, a logical I/O-callback
** budget and a wall-clock watchdog for termination.
*/
#include "vh.h"
#include "foreign.h"
#include <sys/mman.h>
#include <sys/wait.h>

#ifndef MFD_CLOEXEC
#define MFD_CLOEXEC 1
#endif
extern int memfd_create (const char *, unsigned) ;

/* descriptor and pipe routes: count the library's read()/lseek() calls (link-time --wrap) so that a parser spinning on end-of-file is a
** deterministic, logical hang instead of a wall-clock one */
extern ssize_t __real_read (int fd, void *buf, size_t n) ;
extern off_t __real_lseek (int fd, off_t off, int wh) ;
static long fd_calls, fd_budget ;
ssize_t __wrap_read (int fd, void *buf, size_t n) { if (fd_budget > 0 && ++fd_calls > fd_budget) vh_logical_hang ("read()/lseek() call budget exhausted on the descriptor route") ; return __real_read (fd, buf, n) ; }
off_t __wrap_lseek (int fd, off_t off, int wh) { if (fd_budget > 0 && ++fd_calls > fd_budget) vh_logical_hang ("read()/lseek() call budget exhausted on the descriptor route") ; return __real_lseek (fd, off, wh) ; }

#include "mutate.h"

static void add_meta (SNDFILE *s, int format, int level)
{	int maj = format & SF_FORMAT_TYPEMASK ;
	sf_set_string (s, SF_STR_TITLE, "A title") ; sf_set_string (s, SF_STR_COMMENT, "comment here, somewhat longer than the title") ; sf_set_string (s, SF_STR_ARTIST, "artist") ;
	sf_set_string (s, SF_STR_COPYRIGHT, "(c) nobody") ; sf_set_string (s, SF_STR_DATE, "2026-10-02") ; sf_set_string (s, SF_STR_SOFTWARE, "c03") ;
	if (level < 2) return ;
	if (maj == SF_FORMAT_WAV || maj == SF_FORMAT_WAVEX || maj == SF_FORMAT_RF64)
	{	static SF_BROADCAST_INFO bi ; static SF_CART_INFO ci ; memset (&bi, 0, sizeof (bi)) ; snprintf (bi.description, sizeof (bi.description), "bext description") ; snprintf (bi.originator, sizeof (bi.originator), "orig") ;
		snprintf (bi.coding_history, sizeof (bi.coding_history), "A=PCM,F=8000\r\n") ; bi.coding_history_size = (uint32_t) strlen (bi.coding_history) ; sf_command (s, SFC_SET_BROADCAST_INFO, &bi, sizeof (bi)) ;
		memset (&ci, 0, sizeof (ci)) ; snprintf (ci.version, sizeof (ci.version), "0101") ; snprintf (ci.title, sizeof (ci.title), "cart title") ; snprintf (ci.tag_text, sizeof (ci.tag_text), "tag text") ; ci.tag_text_size = 9 ; sf_command (s, SFC_SET_CART_INFO, &ci, sizeof (ci)) ;
		}
	{	SF_CUES cu ; int i ; memset (&cu, 0, sizeof (cu)) ; cu.cue_count = 3 ; for (i = 0 ; i < 3 ; i++) { cu.cue_points [i].indx = i + 1 ; cu.cue_points [i].position = 10 * i ; cu.cue_points [i].sample_offset = 10 * i ; snprintf (cu.cue_points [i].name, 20, "cue%d", i) ; } sf_command (s, SFC_SET_CUE, &cu, sizeof (cu)) ; }
	{	SF_INSTRUMENT in ; memset (&in, 0, sizeof (in)) ; in.gain = 1 ; in.basenote = 60 ; in.velocity_hi = 127 ; in.key_hi = 127 ; in.loop_count = 1 ; in.loops [0].mode = SF_LOOP_FORWARD ; in.loops [0].start = 5 ; in.loops [0].end = 100 ; sf_command (s, SFC_SET_INSTRUMENT, &in, sizeof (in)) ; }
	{	SF_CHUNK_INFO c ; memset (&c, 0, sizeof (c)) ; snprintf (c.id, sizeof (c.id), "Test") ; c.id_size = 4 ; c.datalen = 12 ; c.data = "custom chunk" ; sf_set_chunk (s, &c) ; }
}
/* hand-made corpus files: chunks the library reads but never writes itself (AIFF INST with loops + MARK; WAV smpl with loops + acid) */
static void be16 (unsigned char **p, unsigned v) { *(*p)++ = v >> 8 ; *(*p)++ = v ; }
static void be32w (unsigned char **p, uint32_t v) { *(*p)++ = v >> 24 ; *(*p)++ = v >> 16 ; *(*p)++ = v >> 8 ; *(*p)++ = v ; }
static void le32w (unsigned char **p, uint32_t v) { *(*p)++ = v ; *(*p)++ = v >> 8 ; *(*p)++ = v >> 16 ; *(*p)++ = v >> 24 ; }
static void le16w (unsigned char **p, unsigned v) { *(*p)++ = v ; *(*p)++ = v >> 8 ; }
static void add_handmade (void)
{	int nm, lp ;
	for (nm = 0 ; nm <= 5 ; nm++) for (lp = 0 ; lp <= 2 ; lp++)
	{	unsigned char *b = calloc (1, 2048), *p = b, *szp, *mk ; int i, frames = 200 ; if (ncorp >= 1398) { free (b) ; return ; }
		memcpy (p, "FORM", 4) ; p += 4 ; szp = p ; p += 4 ; memcpy (p, "AIFF", 4) ; p += 4 ;
		memcpy (p, "COMM", 4) ; p += 4 ; be32w (&p, 18) ; be16 (&p, 1) ; be32w (&p, frames) ; be16 (&p, 16) ; { static const unsigned char r8000 [10] = { 0x40, 0x0B, 0xFA, 0, 0, 0, 0, 0, 0, 0 } ; memcpy (p, r8000, 10) ; p += 10 ; }
		memcpy (p, "MARK", 4) ; p += 4 ; mk = p ; p += 4 ; be16 (&p, nm) ; for (i = 0 ; i < nm ; i++) { be16 (&p, i + 1) ; be32w (&p, 10 * (i + 1)) ; *p++ = 3 ; memcpy (p, "mk ", 3) ; p += 3 ; }
		{ uint32_t l = (uint32_t) (p - mk - 4) ; unsigned char *q = mk ; be32w (&q, l) ; }
		memcpy (p, "INST", 4) ; p += 4 ; be32w (&p, 20) ; *p++ = 60 ; *p++ = 0 ; *p++ = 0 ; *p++ = 127 ; *p++ = 1 ; *p++ = 127 ; be16 (&p, 0) ;
		be16 (&p, lp >= 1 ? 1 : 0) ; be16 (&p, 1) ; be16 (&p, 2) ; be16 (&p, lp >= 2 ? 1 : 0) ; be16 (&p, 3) ; be16 (&p, 4) ;
		memcpy (p, "SSND", 4) ; p += 4 ; be32w (&p, 8 + frames * 2) ; be32w (&p, 0) ; be32w (&p, 0) ; for (i = 0 ; i < frames ; i++) be16 (&p, (unsigned) (i * 100) & 0xffff) ;
		{ unsigned char *q = szp ; be32w (&q, (uint32_t) (p - b - 8)) ; }
		corpus [ncorp].d = b ; corpus [ncorp].len = (long) (p - b) ; corpus [ncorp].format = SF_FORMAT_AIFF | SF_FORMAT_PCM_16 ; corpus [ncorp].ch = 1 ; corpus [ncorp].meta = 2 ; ncorp++ ;
		}
	for (lp = 0 ; lp <= 3 ; lp++)		/* WAV with smpl (lp loops declared, lp or lp-1 present) and acid chunks */
	{	unsigned char *b = calloc (1, 2048), *p = b, *szp ; int i, frames = 200, present = lp == 3 ? 2 : lp ; if (ncorp >= 1398) { free (b) ; return ; }
		memcpy (p, "RIFF", 4) ; p += 4 ; szp = p ; p += 4 ; memcpy (p, "WAVE", 4) ; p += 4 ;
		memcpy (p, "fmt ", 4) ; p += 4 ; le32w (&p, 16) ; le16w (&p, 1) ; le16w (&p, 1) ; le32w (&p, 8000) ; le32w (&p, 16000) ; le16w (&p, 2) ; le16w (&p, 16) ;
		memcpy (p, "smpl", 4) ; p += 4 ; le32w (&p, 36 + 24 * present) ; le32w (&p, 0) ; le32w (&p, 0) ; le32w (&p, 125000) ; le32w (&p, 60) ; le32w (&p, 0) ; le32w (&p, 0) ; le32w (&p, 0) ; le32w (&p, lp) ; le32w (&p, 0) ;
		for (i = 0 ; i < present ; i++) { le32w (&p, i) ; le32w (&p, i % 3) ; le32w (&p, 10 + i) ; le32w (&p, 50 + i) ; le32w (&p, 0) ; le32w (&p, 0) ; }
		memcpy (p, "acid", 4) ; p += 4 ; le32w (&p, 24) ; le32w (&p, 1) ; le16w (&p, 60) ; le16w (&p, 0x8000) ; le32w (&p, 0) ; le32w (&p, 4) ; le16w (&p, 4) ; le16w (&p, 4) ; le32w (&p, 0x42f00000) ;
		memcpy (p, "data", 4) ; p += 4 ; le32w (&p, frames * 2) ; for (i = 0 ; i < frames ; i++) le16w (&p, (unsigned) (i * 100) & 0xffff) ;
		{ unsigned char *q = szp ; le32w (&q, (uint32_t) (p - b - 8)) ; }
		corpus [ncorp].d = b ; corpus [ncorp].len = (long) (p - b) ; corpus [ncorp].format = SF_FORMAT_WAV | SF_FORMAT_PCM_16 ; corpus [ncorp].ch = 1 ; corpus [ncorp].meta = 2 ; ncorp++ ;
		}
	/* many strings: more entries than the string table has slots (CAF info chunk, WAV LIST/INFO, AIFF text chunks) */
	{	int nent, i ; static const char *ids [] = { "INAM", "IART", "ICMT", "ICOP", "ISFT", "ICRD", "IGNR", "IPRD", "ITRK" } ;
		for (nent = 30 ; nent <= 70 ; nent += 8)
		{	unsigned char *b = calloc (1, 16384), *p = b, *szp, *lp ; int frames = 50 ; if (ncorp >= 1398) { free (b) ; return ; }
			memcpy (p, "caff", 4) ; p += 4 ; be16 (&p, 1) ; be16 (&p, 0) ;
			memcpy (p, "desc", 4) ; p += 4 ; be32w (&p, 0) ; be32w (&p, 32) ; { static const unsigned char r8000 [8] = { 0x40, 0xBF, 0x40, 0, 0, 0, 0, 0 } ; memcpy (p, r8000, 8) ; p += 8 ; } memcpy (p, "lpcm", 4) ; p += 4 ; be32w (&p, 0) ; be32w (&p, 2) ; be32w (&p, 1) ; be32w (&p, 1) ; be32w (&p, 16) ;
			memcpy (p, "info", 4) ; p += 4 ; szp = p ; p += 8 ; lp = p ; be32w (&p, nent) ; for (i = 0 ; i < nent ; i++) { p += sprintf ((char *) p, "key%02d", i) + 1 ; p += sprintf ((char *) p, "value number %d", i) + 1 ; if (i % 9 == 0) { p += sprintf ((char *) p, "title") + 1 ; p += sprintf ((char *) p, "t%d", i) + 1 ; } }
			{ unsigned char *q = szp ; be32w (&q, 0) ; be32w (&q, (uint32_t) (p - lp)) ; }
			memcpy (p, "data", 4) ; p += 4 ; be32w (&p, 0) ; be32w (&p, 4 + frames * 2) ; be32w (&p, 0) ; for (i = 0 ; i < frames ; i++) be16 (&p, (unsigned) (i * 321) & 0xffff) ;
			corpus [ncorp].d = b ; corpus [ncorp].len = (long) (p - b) ; corpus [ncorp].format = SF_FORMAT_CAF | SF_FORMAT_PCM_16 ; corpus [ncorp].ch = 1 ; corpus [ncorp].meta = 2 ; ncorp++ ;
			}
		for (nent = 30 ; nent <= 70 ; nent += 10)
		{	unsigned char *b = calloc (1, 16384), *p = b, *szp, *lsz, *ls ; int frames = 50 ; if (ncorp >= 1398) { free (b) ; return ; }
			memcpy (p, "RIFF", 4) ; p += 4 ; szp = p ; p += 4 ; memcpy (p, "WAVE", 4) ; p += 4 ;
			memcpy (p, "fmt ", 4) ; p += 4 ; le32w (&p, 16) ; le16w (&p, 1) ; le16w (&p, 1) ; le32w (&p, 8000) ; le32w (&p, 16000) ; le16w (&p, 2) ; le16w (&p, 16) ;
			memcpy (p, "LIST", 4) ; p += 4 ; lsz = p ; p += 4 ; ls = p ; memcpy (p, "INFO", 4) ; p += 4 ;
			for (i = 0 ; i < nent ; i++) { char txt [40] ; int l = sprintf (txt, "text item %d", i) + 1 ; l += l & 1 ; memcpy (p, ids [i % 9], 4) ; p += 4 ; le32w (&p, l) ; memcpy (p, txt, strlen (txt) + 1) ; p += l ; }
			{ unsigned char *q = lsz ; le32w (&q, (uint32_t) (p - ls)) ; }
			memcpy (p, "data", 4) ; p += 4 ; le32w (&p, frames * 2) ; for (i = 0 ; i < frames ; i++) le16w (&p, (unsigned) (i * 100) & 0xffff) ;
			{ unsigned char *q = szp ; le32w (&q, (uint32_t) (p - b - 8)) ; }
			corpus [ncorp].d = b ; corpus [ncorp].len = (long) (p - b) ; corpus [ncorp].format = SF_FORMAT_WAV | SF_FORMAT_PCM_16 ; corpus [ncorp].ch = 1 ; corpus [ncorp].meta = 2 ; ncorp++ ;
			}
		}
	/* files as other programs write them (harness/foreign.h): starting points for every mutator, the systematic chunk mutations included */
	{	int fi ;
		for (fi = 0 ; fi < foreign_count () ; fi++)
		{	unsigned char *b = NULL ; long n = 0 ; if (ncorp >= 1398) return ;
			foreign_make (fi, &b, &n) ; if (n < 12) { free (b) ; continue ; }
			corpus [ncorp].d = b ; corpus [ncorp].len = n ; corpus [ncorp].ch = 1 ; corpus [ncorp].meta = 2 ;
			corpus [ncorp].format = (!memcmp (b, "FORM", 4) ? SF_FORMAT_AIFF : !memcmp (b, "caff", 4) ? SF_FORMAT_CAF : (!memcmp (b, ".snd", 4) || !memcmp (b, "dns.", 4)) ? SF_FORMAT_AU : SF_FORMAT_WAV) | SF_FORMAT_PCM_16 ;		/* names the keys only */
			ncorp++ ; vh_stat ("foreign_corpus_files", 1) ;
			}
		}
	/* one to four ID3v2 tags (each larger than the header cache) in front of a small WAV file */
	{	int ntag, i ;
		for (ntag = 1 ; ntag <= 4 ; ntag++)
		{	long tagsz = 60000 ; unsigned char *b = calloc (1, (size_t) ntag * (tagsz + 10) + 400), *p = b, *szp ; int frames = 50 ; if (ncorp >= 1398) { free (b) ; return ; }
			for (i = 0 ; i < ntag ; i++) { memcpy (p, "ID3", 3) ; p += 3 ; *p++ = 3 ; *p++ = 0 ; *p++ = 0 ; *p++ = (tagsz >> 21) & 0x7f ; *p++ = (tagsz >> 14) & 0x7f ; *p++ = (tagsz >> 7) & 0x7f ; *p++ = tagsz & 0x7f ; p += tagsz ; }
			memcpy (p, "RIFF", 4) ; p += 4 ; szp = p ; p += 4 ; memcpy (p, "WAVE", 4) ; p += 4 ;
			memcpy (p, "fmt ", 4) ; p += 4 ; le32w (&p, 16) ; le16w (&p, 1) ; le16w (&p, 1) ; le32w (&p, 8000) ; le32w (&p, 16000) ; le16w (&p, 2) ; le16w (&p, 16) ;
			memcpy (p, "data", 4) ; p += 4 ; le32w (&p, frames * 2) ; for (i = 0 ; i < frames ; i++) le16w (&p, (unsigned) (i * 100) & 0xffff) ;
			{ unsigned char *q = szp ; le32w (&q, (uint32_t) (p - szp - 4)) ; }
			corpus [ncorp].d = b ; corpus [ncorp].len = (long) (p - b) ; corpus [ncorp].format = SF_FORMAT_WAV | SF_FORMAT_PCM_16 ; corpus [ncorp].ch = 1 ; corpus [ncorp].meta = 1 ; ncorp++ ;
			}
		}
}

static void build_corpus (void)
{	int f, c, lv ;
	for (f = 0 ; f < vh_nfmts ; f++) for (c = 1 ; c <= 2 ; c++) for (lv = 0 ; lv < 3 ; lv++)
	{	MEMF m ; SNDFILE *s ; int format = vh_fmts [f].format, i, N = 300 ; short *d ;
		if (vh_fmts [f].major == SF_FORMAT_SD2 || vh_fmts [f].major == SF_FORMAT_RAW) continue ;
		if (!vh_accepts (format, c, 8000) || ncorp >= 1390) continue ;
		if (lv > 0 && !(vh_fmts [f].major == SF_FORMAT_WAV || vh_fmts [f].major == SF_FORMAT_WAVEX || vh_fmts [f].major == SF_FORMAT_RF64 || vh_fmts [f].major == SF_FORMAT_AIFF || vh_fmts [f].major == SF_FORMAT_CAF)) continue ;
		memset (&m, 0, sizeof (m)) ; s = vh_open_w (&m, format, c, 8000, NULL) ; if (!s) continue ;
		if (lv) add_meta (s, format, lv) ;
		d = malloc (2 * N * c) ; for (i = 0 ; i < N * c ; i++) d [i] = (short) (10000 * sin (i * .05) + (i * 7919) % 200) ;
		sf_writef_short (s, d, N) ; free (d) ; sf_close (s) ;
		if (m.len > 0) { corpus [ncorp].d = m.d ; corpus [ncorp].len = (long) m.len ; corpus [ncorp].format = format ; corpus [ncorp].ch = c ; corpus [ncorp].meta = lv ; ncorp++ ; } else mv_free (&m) ;
		}
	add_handmade () ;
}

static const char *cur_fn = "?" ;
static void inv (SNDFILE *s, const char *where) { char why [128] ; if (sf_verif_check_invariants (s, why, sizeof (why))) vh_viol (vh_key ("C03|invariant|%s|%s", why, cur_fn), "after %s", where) ; }

static void exercise (SNDFILE *s, const SF_INFO *si, const char *route)
{	int ch = si->channels, it, k = 1 + vh_rint (64), t ; void *buf [T_N] ; int known = 0, a ;
	if (ch < 1 || ch > 1024 || si->samplerate < 1 || si->frames < 0 || si->sections < 1)
	{	vh_viol (vh_key ("C03|insane-info|%s", cur_fn), "route %s: channels=%d samplerate=%d frames=%lld sections=%d", route, si->channels, si->samplerate, (long long) si->frames, si->sections) ; return ; }
	for (a = 0 ; a < vh_nmaj ; a++) if ((si->format & SF_FORMAT_TYPEMASK) == vh_majors [a].format) known |= 1 ;
	for (a = 0 ; a < vh_nsub ; a++) if ((si->format & SF_FORMAT_SUBMASK) == vh_subs [a].format) known |= 2 ;
	if ((si->format & SF_FORMAT_SUBMASK) == SF_FORMAT_DWVW_N) { known |= 2 ; vh_stat ("opened_as_DWVW_N", 1) ; }	/* a public constant of sndfile.h that SFC_GET_FORMAT_SUBTYPE does not list: AIFF DWVW with a bit width other than 12/16/24 */
	if (known != 3) vh_viol (vh_key ("C03|unknown-format-word|%s", cur_fn), "format 0x%x does not name an enumerated container and encoding", si->format) ;
	vh_statf (1, "opened:%s", vh_short_major (si->format & SF_FORMAT_TYPEMASK)) ;
	for (t = 0 ; t < T_N ; t++) buf [t] = vh_guard_alloc ((size_t) k * ch * vh_tsize [t], 0xA5) ;	/* exact size: any write beyond the request is an ASan report */
	for (it = 0 ; it < 8 ; it++)
	{	t = vh_rint (T_N) ;
		{	long kk = 1 + vh_rint (k) ; sf_count_t r = vh_read_t (s, t, vh_rint (2), buf [t], kk * ch, ch) ;
			if (r < 0 || r > kk * ch) vh_viol (vh_key ("C03|read-return-range|%s", cur_fn), "asked %ld items, returned %lld", kk * ch, (long long) r) ; }
		inv (s, "read") ;
		if (vh_rint (2))
		{	sf_count_t tg ; int wh = vh_rint (3) ; sf_count_t F = si->frames < 100000000 ? si->frames : 1000 ;
			switch (vh_rint (6)) { case 0 : tg = 0 ; break ; case 1 : tg = F / 2 ; break ; case 2 : tg = F - 1 ; break ; case 3 : tg = F ; break ; case 4 : tg = F + 1 ; break ; default : tg = -1 ; }
			sf_seek (s, wh == 0 ? tg : wh == 1 ? tg - F / 2 : tg - F, wh == 0 ? SEEK_SET : wh == 1 ? SEEK_CUR : SEEK_END) ; inv (s, "seek") ; }
		}
	for (t = SF_STR_FIRST ; t <= SF_STR_LAST ; t++) sf_get_string (s, t) ;
	{	SF_CHUNK_ITERATOR *itr = sf_get_chunk_iterator (s, NULL) ; int nc = 0 ; char first [8] = "" ;
		while (itr && nc < 300)
		{	SF_CHUNK_INFO ci ; memset (&ci, 0, sizeof (ci)) ;
			if (sf_get_chunk_size (itr, &ci) == 0 && ci.datalen < 200000)
			{	unsigned want [4] = { ci.datalen, 0, 1, ci.datalen ? ci.datalen - 1 : 0 }, w ;
				if (nc == 0) memcpy (first, ci.id, 4) ;
				for (w = 0 ; w < 4 ; w++) { SF_CHUNK_INFO c2 ; unsigned char *cb = vh_guard_alloc (want [w], 0xEE) ; memset (&c2, 0, sizeof (c2)) ; c2.datalen = want [w] ; c2.data = cb ; sf_get_chunk_data (itr, &c2) ; free (cb) ; if (nc > 3) break ; }
				}
			itr = sf_next_chunk_iterator (itr) ; nc++ ; }
		if (nc >= 300) vh_viol (vh_key ("C03|chunk-iterator-unbounded|%s", cur_fn), "more than 300 iterator steps") ;
		if (first [0]) { SF_CHUNK_INFO q ; memset (&q, 0, sizeof (q)) ; memcpy (q.id, first, 4) ; q.id_size = 4 ; itr = sf_get_chunk_iterator (s, &q) ; nc = 0 ; while (itr && nc++ < 300) itr = sf_next_chunk_iterator (itr) ; }
		inv (s, "chunk queries") ;
		}
	{	double mx [1024] ; SF_BROADCAST_INFO bi ; SF_CART_INFO ca ; SF_INSTRUMENT ins ; SF_CUES cu ; SF_LOOP_INFO li ; int cm [1024] ; char log [2048] ; uint32_t cc ;
		memset (&bi, 0, sizeof (bi)) ; memset (&ca, 0, sizeof (ca)) ; memset (&cu, 0, sizeof (cu)) ;
		/* the variable-length fields a getter reports can never exceed what the input could hold (16 KiB structures at most) */
		if (sf_command (s, SFC_GET_BROADCAST_INFO, &bi, sizeof (bi)) == SF_TRUE && bi.coding_history_size > 0x4000) vh_viol (vh_key ("C03|insane-metadata|bext-coding-history-size|%s", cur_fn), "SFC_GET_BROADCAST_INFO reports coding_history_size %u", bi.coding_history_size) ;
		if (sf_command (s, SFC_GET_CART_INFO, &ca, sizeof (ca)) == SF_TRUE && ca.tag_text_size > 0x4000) vh_viol (vh_key ("C03|insane-metadata|cart-tag-text-size|%s", cur_fn), "SFC_GET_CART_INFO reports tag_text_size %u (0x%x)", ca.tag_text_size, ca.tag_text_size) ;
		sf_command (s, SFC_GET_INSTRUMENT, &ins, sizeof (ins)) ;
		if (sf_command (s, SFC_GET_CUE, &cu, sizeof (cu)) == SF_TRUE && cu.cue_count > 100) vh_viol (vh_key ("C03|insane-metadata|cue-count|%s", cur_fn), "SFC_GET_CUE filled a 100-entry SF_CUES and reports cue_count %u", cu.cue_count) ;
		sf_command (s, SFC_GET_CUE_COUNT, &cc, sizeof (cc)) ; sf_command (s, SFC_GET_LOOP_INFO, &li, sizeof (li)) ; sf_command (s, SFC_GET_CHANNEL_MAP_INFO, cm, ch * sizeof (int)) ;
		sf_command (s, SFC_GET_LOG_INFO, log, sizeof (log)) ; sf_command (s, SFC_GET_SIGNAL_MAX, mx, sizeof (double)) ; sf_command (s, SFC_GET_MAX_ALL_CHANNELS, mx, ch * sizeof (double)) ;
		if (si->seekable && si->frames < 3000000) { sf_command (s, SFC_CALC_SIGNAL_MAX, mx, sizeof (double)) ; sf_command (s, SFC_CALC_NORM_MAX_ALL_CHANNELS, mx, ch * sizeof (double)) ; }
		sf_current_byterate (s) ;
		inv (s, "commands") ;
		}
	for (t = 0 ; t < T_N ; t++) free (buf [t]) ;
}

static void run_input (MEMF *m, int route)
{	SF_INFO si ; SNDFILE *s = NULL ; int fd = -1, pfd [2] = { -1, -1 } ; const char *rn = route == 0 ? "vio" : route == 1 ? "fd" : "pipe" ;
	memset (&si, 0, sizeof (si)) ;
	m->pos = 0 ; m->ncalls = 0 ; m->budget = 64 * ((long) m->len + 70000) + 4096 ; fd_calls = 0 ; fd_budget = route ? m->budget : 0 ;
	if (route == 0) s = sf_open_virtual (&MVIO, SFM_READ, &si, m) ;
	else if (route == 1)
	{	fd = memfd_create ("c03", MFD_CLOEXEC) ; if (fd < 0) return ;
		if (write (fd, m->d, m->len) != m->len) { close (fd) ; return ; } lseek (fd, 0, SEEK_SET) ;
		s = sf_open_fd (fd, SFM_READ, &si, 0) ; }
	else
	{	if (m->len > 900000 || pipe (pfd)) return ;
		fcntl (pfd [1], 1031 /* F_SETPIPE_SZ */, 1 << 20) ;
		if (write (pfd [1], m->d, m->len) != m->len) { close (pfd [0]) ; close (pfd [1]) ; return ; } close (pfd [1]) ;
		s = sf_open_fd (pfd [0], SFM_READ, &si, 0) ; }
	vh_statf (1, "route:%s", rn) ;
	if (s == NULL)
	{	int e = sf_error (NULL) ; const char *msg = sf_strerror (NULL) ;
		vh_stat ("rejected", 1) ; vh_statf (1, "reject_code:%d", e) ;
		if (e == 0) vh_viol (vh_key ("C03|null-without-error|%s", cur_fn), "route %s: sf_open returned NULL but sf_error (NULL) is 0", rn) ;
		if (!msg || !*msg) vh_viol (vh_key ("C03|null-without-message|%s", cur_fn), "route %s: empty sf_strerror", rn) ;
		}
	else { vh_stat ("accepted", 1) ; inv (s, "open") ; exercise (s, &si, rn) ; sf_close (s) ; }
	fd_budget = 0 ;
	if (fd >= 0) close (fd) ; if (pfd [0] >= 0) close (pfd [0]) ;
}

int main (int argc, char **argv)
{	int j, k, per ;
	vh_init (argc, argv, "c03_hostile_input", "C03") ;
	vh_case_secs = 20 ; vh_case_cpu_secs = 6 ;
	vh_enum_formats () ;
	{	uint64_t sv = vh_rs ; vh_srand (12345) ; build_corpus () ; vh_rs = sv ; }
	per = vh_thorough ? 1500 : 100 ;
	for (j = 0 ; j < ncorp ; j++) for (k = 0 ; k < per ; k++)
	{	MEMF m ; char desc [300] ; int route ;
		route = (k % 8 == 3) ? 2 : (k % 4 == 1) ? 1 : 0 ;
		if (!vh_case ("%s@%s ch=%d meta=%d mutant=%d", vh_fname (corpus [j].format), route == 0 ? "vio" : route == 1 ? "fd" : "pipe", corpus [j].ch, corpus [j].meta, k)) continue ;
		cur_fn = vh_fname (corpus [j].format) ;
		if (k == 0) { mv_from (&m, corpus [j].d, corpus [j].len) ; snprintf (desc, sizeof (desc), "unmodified") ; }
		else if (k % 37 == 36) { long n = 12 + vh_rint (600), i ; unsigned char *r = malloc (n) ; for (i = 0 ; i < n ; i++) r [i] = (unsigned char) vh_rnd () ; if (vh_rint (2)) memcpy (r, corpus [j].d, corpus [j].len < 12 ? corpus [j].len : 12) ; mv_from (&m, r, n) ; free (r) ; snprintf (desc, sizeof (desc), "random bytes (%ld)%s", n, "") ; }
		else if (k < 40 && k < corpus [j].len / 4) { mv_from (&m, corpus [j].d, corpus [j].len) ; m.len = (k < 30) ? k * (corpus [j].len < 400 ? corpus [j].len : 400) / 30 : corpus [j].len - 97 * (k - 29) ; if (m.len < 1) m.len = 1 ; snprintf (desc, sizeof (desc), "truncated to %ld of %ld", (long) m.len, corpus [j].len) ; }
		else mutate (&m, &corpus [j], desc, sizeof (desc)) ;
		vh_distinct (vh_fnv (vh_fnv (0, m.d, (size_t) m.len), &route, 4)) ;
		if (vh_verbose) fprintf (stderr, "  input: %s, %ld bytes, route %d\n", desc, (long) m.len, route) ;
		if (k % 50 == 7) vh_sample ("%s ch=%d: %s -> %ld bytes via %s", cur_fn, corpus [j].ch, desc, (long) m.len, route == 0 ? "virtual I/O" : route == 1 ? "descriptor" : "pipe") ;
		run_input (&m, route) ;
		mv_free (&m) ;
		}
	/* systematic chunk mutations on the metadata-rich corpus files: every marker in the first 1500 bytes x 16 mutations */
	for (j = 0 ; j < ncorp ; j++) if (corpus [j].meta == 2 || (corpus [j].meta == 0 && corpus [j].ch == 1))
	{	int mi, mk ;
		for (mi = 0 ; mi < 60 ; mi++) for (mk = 0 ; mk < MUTATE_MARKER_KINDS ; mk++)
		{	MEMF m ; char desc [200] ; int route = ((mi + mk) % 8 == 3) ? 2 : ((mi + mk) % 4 == 1) ? 1 : 0 ;
			if (!vh_case ("%s@%s ch=%d meta=%d marker=%d mutation=%d", vh_fname (corpus [j].format), route == 0 ? "vio" : route == 1 ? "fd" : "pipe", corpus [j].ch, corpus [j].meta, mi, mk)) continue ;
			if (!mutate_marker (&m, &corpus [j], mi, mk, 1500, desc, sizeof (desc))) continue ;
			cur_fn = vh_fname (corpus [j].format) ;
			vh_distinct (vh_fnv (vh_fnv (0, m.d, (size_t) m.len), &route, 4)) ;
			if (vh_verbose) fprintf (stderr, "  input: %s\n", desc) ;
			run_input (&m, route) ;
			mv_free (&m) ;
			}
		}
	/* systematic field sweep: every even offset of the first 64 header bytes x 14 hostile 32-bit values, on the plain mono corpus files */
	for (j = 0 ; j < ncorp ; j++) if (corpus [j].meta == 0 && corpus [j].ch == 1)
	{	int fi, fk ;
		for (fi = 0 ; fi < 32 ; fi++) for (fk = 0 ; fk < MUTATE_FIELD_KINDS ; fk++)
		{	MEMF m ; char desc [200] ; int route = ((fi + fk) % 8 == 3) ? 2 : ((fi + fk) % 4 == 1) ? 1 : 0 ;
			if (!vh_case ("%s@%s ch=%d field=%d value=%d", vh_fname (corpus [j].format), route == 0 ? "vio" : route == 1 ? "fd" : "pipe", corpus [j].ch, fi, fk)) continue ;
			if (!mutate_field (&m, &corpus [j], fi, fk, 64, desc, sizeof (desc))) continue ;
			cur_fn = vh_fname (corpus [j].format) ;
			vh_distinct (vh_fnv (vh_fnv (0, m.d, (size_t) m.len), &route, 4)) ;
			vh_stat ("field_sweep_inputs", 1) ;
			run_input (&m, route) ;
			mv_free (&m) ;
			}
		}
	return vh_finish () ;
}
