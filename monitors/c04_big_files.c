/* C04 — files larger than 2 GiB / 4 GiB: a closed file describes exactly what was written into it (see bigfiles.inc.h) */
#define BIG_C11 0
#include "bigfiles.inc.h"
