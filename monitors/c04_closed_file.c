/* C04 — a closed file describes exactly what was written into it.
** Oracle: compare the re-opened SF_INFO with the request; F in [N, N+B); read-to-EOF delivers exactly F frames;
** the frames field passed at open has no influence; RIFF/FORM size fields match the real file size.
*/
#include "vh.h"

/* what the container's rate field can hold, from the format documents; returns -1 when the field cannot represent 'rate' */
static long expected_rate (int format, int ch, long rate)
{	int maj = format & SF_FORMAT_TYPEMASK, sub = format & SF_FORMAT_SUBMASK ;
	switch (maj)
	{	case SF_FORMAT_SVX : case SF_FORMAT_MPC2K : return rate <= 65535 ? rate : -1 ;		/* 16-bit field */
		case SF_FORMAT_IRCAM : { float f = (float) rate ; return f < 2147483648.0f ? (long) f : -1 ; }	/* float32 field */
		case SF_FORMAT_HTK : { long p = 10000000 / rate ; return p >= 1 ? 10000000 / p : -1 ; }	/* period in 100 ns units */
		case SF_FORMAT_SDS : { long p = 1000000000 / rate ; return (p >= 1 && p < (1 << 21)) ? 1000000000 / p : -1 ; }	/* 21-bit period in ns */
		case SF_FORMAT_VOC :
			if (sub == SF_FORMAT_PCM_U8 && ch == 1) { long d = 1000000 / rate ; return (d >= 1 && d <= 255) ? 1000000 / d : -1 ; }
			if (sub == SF_FORMAT_PCM_U8 && ch == 2) { long d = 128000000 / rate ; return (d >= 1 && d <= 65535) ? 128000000 / d : -1 ; }
			return rate ;
		case SF_FORMAT_XI : return 44100 ;
		case SF_FORMAT_WVE : return 8000 ;
		case SF_FORMAT_RAW : return rate ;			/* supplied by the caller on re-open */
		}
	return rate ;	/* integer-Hz or wider field: WAV, WAVEX, RF64, W64, AIFF, AU, CAF, NIST, PAF, PVF, MAT4, MAT5, AVR, SD2 */
}

static int bytes_per_frame_is_one (int format, int ch)
{	int sub = format & SF_FORMAT_SUBMASK ;
	return ch == 1 && (sub == SF_FORMAT_PCM_S8 || sub == SF_FORMAT_PCM_U8 || sub == SF_FORMAT_ULAW || sub == SF_FORMAT_ALAW || sub == SF_FORMAT_DPCM_8) ; }

static uint32_t rd32 (const unsigned char *p, int big) { return big ? ((uint32_t) p [0] << 24 | p [1] << 16 | p [2] << 8 | p [3]) : ((uint32_t) p [3] << 24 | p [2] << 16 | p [1] << 8 | p [0]) ; }

static void run_case (int format, int ch, long rate, long N, int pmode, sf_count_t frames_in)
{	MEMF m ; SNDFILE *s ; SF_INFO wi, ri ; long items = N * ch, done = 0, B = vh_block (format, ch, (int) rate), F ; int t = vh_rint (T_N) ;
	const char *fn = vh_fname (format), *opt = "" ; int maj = format & SF_FORMAT_TYPEMASK, downgrade = 0 ;
	char *wbuf = vh_guard_alloc (items * 8, 0) ;
	memset (&m, 0, sizeof (m)) ;
	{	long i ; for (i = 0 ; i < items ; i++)
		{	double v = 0.6 * sin (i * 0.05) + ((int) (vh_rnd () % 2001) - 1000) / 5000.0 ;
			switch (t) { case T_SHORT : ((short *) wbuf) [i] = (short) (v * 32000) ; break ; case T_INT : ((int *) wbuf) [i] = (int) (v * 2.1e9) ; break ;
				case T_FLOAT : ((float *) wbuf) [i] = (float) v ; break ; default : ((double *) wbuf) [i] = v ; } } }
	memset (&wi, 0, sizeof (wi)) ; wi.format = format ; wi.channels = ch ; wi.samplerate = (int) rate ; wi.frames = frames_in ; wi.sections = (int) (frames_in & 0xff) ; wi.seekable = 1 ;
	s = sf_open_virtual (&MVIO, SFM_WRITE, &wi, &m) ;
	if (s == NULL)
	{	/* sf_format_check said yes: C10 judges the disagreement; some (container, rate) pairs are legitimately refused at open */
		vh_statf (1, "open_refused:%s", fn) ; free (wbuf) ; return ; }
	/* writer options that change the header's layout or labels, never what was written */
	switch (vh_rint (8))
	{	case 0 : if (maj == SF_FORMAT_WAVEX) { sf_command (s, SFC_WAVEX_SET_AMBISONIC, NULL, SF_AMBISONIC_B_FORMAT) ; opt = "|option:ambisonic" ; } break ;
		case 1 : sf_command (s, SFC_SET_ADD_PEAK_CHUNK, NULL, SF_FALSE) ; if (vh_is_fp (format & SF_FORMAT_SUBMASK)) opt = "|option:no-peak-chunk" ; break ;
		case 2 : sf_command (s, SFC_SET_UPDATE_HEADER_AUTO, NULL, SF_TRUE) ; opt = "|option:auto-header-update" ; break ;
		case 3 : if (maj == SF_FORMAT_RF64) { sf_command (s, SFC_RF64_AUTO_DOWNGRADE, NULL, SF_TRUE) ; opt = "|option:rf64-auto-downgrade" ; downgrade = 1 ; } break ;
		default : break ;
		}
	vh_statf (1, "writer%s", opt [0] ? opt : "|option:none") ;
	while (done < items)
	{	long k = pmode == 0 ? items - done : pmode == 1 ? ch : ch * (1 + vh_rint (pmode == 2 ? 7 : 3000)) ; sf_count_t w ;
		if (k > items - done) k = items - done ;
		w = vh_write_t (s, t, vh_rint (2), wbuf + done * vh_tsize [t], k, ch) ;
		if (w != k) { vh_viol (vh_key ("C04|write-count|%s", fn), "N=%ld ch=%d: write of %ld returned %ld err=%d", N, ch, k, (long) w, sf_error (s)) ; break ; }
		done += k ;
		}
	{	int ce = sf_close (s) ; if (ce) vh_viol (vh_key ("C04|close|%s", fn), "sf_close returned %d", ce) ; }
	free (wbuf) ;
	if (done < items) { mv_free (&m) ; return ; }
	vh_stat ("files_written", 1) ;

	/* container size fields vs the real size */
	if (m.len >= 12)
	{	if ((maj == SF_FORMAT_WAV || maj == SF_FORMAT_WAVEX) && (!memcmp (m.d, "RIFF", 4) || !memcmp (m.d, "RIFX", 4)))
		{	uint32_t sz = rd32 (m.d + 4, m.d [3] == 'X') ; vh_stat ("size_fields_checked", 1) ;
			if ((sf_count_t) sz + 8 != m.len) vh_viol (vh_key ("C04|riff-size|%s", fn), "N=%ld ch=%d: RIFF size field %u + 8 != file length %ld", N, ch, sz, (long) m.len) ; }
		if (maj == SF_FORMAT_AIFF && !memcmp (m.d, "FORM", 4))
		{	uint32_t sz = rd32 (m.d + 4, 1) ; vh_stat ("size_fields_checked", 1) ;
			if ((sf_count_t) sz + 8 != m.len) vh_viol (vh_key ("C04|form-size|%s", fn), "N=%ld ch=%d: FORM size field %u + 8 != file length %ld", N, ch, sz, (long) m.len) ; }
		}

	s = vh_open_r (&m, format, ch, (int) rate, &ri) ;
	if (s == NULL)
	{	long er = expected_rate (format, ch, rate) ;
		vh_viol (vh_key ("C04|reopen-failed|%s%s%s", fn, er < 0 ? "|rate-not-representable" : "", rate < 10 ? "|rate<10" : ""), "N=%ld ch=%d rate=%ld: %s", N, ch, rate, sf_strerror (NULL)) ; mv_free (&m) ; return ; }
	F = (long) ri.frames ;
	if (ri.channels != ch) vh_viol (vh_key ("C04|channels|%s", fn), "wrote %d channels, re-open reports %d", ch, ri.channels) ;
	if (downgrade && ((ri.format & SF_FORMAT_TYPEMASK) == SF_FORMAT_WAV || (ri.format & SF_FORMAT_TYPEMASK) == SF_FORMAT_WAVEX) && (ri.format & SF_FORMAT_SUBMASK) == (format & SF_FORMAT_SUBMASK)) vh_stat ("rf64_downgraded_to_wav", 1) ;	/* what SFC_RF64_AUTO_DOWNGRADE is documented to do for files below 4 GB */
	else if ((ri.format & (SF_FORMAT_TYPEMASK | SF_FORMAT_SUBMASK)) != (format & (SF_FORMAT_TYPEMASK | SF_FORMAT_SUBMASK)))
		vh_viol (vh_key ("C04|format|%s", fn), "wrote 0x%x, re-open reports 0x%x", format, ri.format) ;
	{	int re = ri.format & SF_FORMAT_ENDMASK, we = format & SF_FORMAT_ENDMASK ; if (we == SF_ENDIAN_CPU) we = SF_ENDIAN_LITTLE ;
		if (we != SF_ENDIAN_FILE && re != SF_ENDIAN_FILE && re != we && maj != SF_FORMAT_RAW)
			vh_viol (vh_key ("C04|endian|%s/%s", fn, vh_endname (format)), "requested byte order %s, re-open reports %s", vh_endname (format), vh_endname (ri.format)) ; }
	{	long er = expected_rate (format, ch, rate) ;
		if (er >= 0) { vh_stat ("rate_checked", 1) ; if (ri.samplerate != er) vh_viol (vh_key ("C04|samplerate|%s|%ld", fn, rate), "requested %ld Hz (field holds %ld), re-open reports %d", rate, er, ri.samplerate) ; }
		else vh_stat ("rate_not_representable", 1) ; }
	if (ri.sections < 1) vh_viol (vh_key ("C04|sections|%s", fn), "sections=%d", ri.sections) ;
	/* frame count */
	{	int ok = (F >= N && F < N + B) ;
		if (!ok && B == 1 && F == N + 1 && (N & 1) && bytes_per_frame_is_one (format, ch)) { ok = 1 ; vh_stat ("pad_frame_accepted", 1) ; }
		if (!ok) vh_viol (vh_key ("C04|frames|%s|%s%s%s", fn, F < N ? "F<N" : (B == 1 ? "F>N" : "F>=N+B"), rate < 10 ? "|rate<10" : "", opt), "wrote N=%ld frames (ch=%d, block %ld), re-open reports F=%ld (frames field at open was %lld)", N, ch, B, F, (long long) frames_in) ;
		else vh_stat ("frames_ok", 1) ; }
	/* read to EOF */
	if (F >= 0 && F < 50000000)
	{	long got = 0, lim = F + 3 * B + 50 ; int rt = vh_rint (T_N), rmode = vh_rint (3) ; long kmax = rmode == 0 ? 1 : rmode == 1 ? (B > 1 ? B - 1 : 13) : 5000 ;
		char *rb = vh_guard_alloc (kmax * ch * 8, 0x33) ;
		if (rmode == 0 && F > 3000) { rmode = 2 ; kmax = 5000 ; free (rb) ; rb = vh_guard_alloc (kmax * ch * 8, 0x33) ; }
		while (got <= lim)
		{	sf_count_t r = vh_read_t (s, rt, 1, rb, kmax * ch, ch) ;
			if (r < 0 || r > kmax * ch || r % ch) { vh_viol (vh_key ("C04|read-return|%s", fn), "read of %ld frames returned %ld items", kmax, (long) r) ; break ; }
			if (r == 0) break ;
			got += r / ch ;
			}
		if (got != F) vh_viol (vh_key ("C04|eof|%s|%s", fn, got < F ? "delivered<F" : "delivered>F"), "N=%ld ch=%d: header says F=%ld, reading to EOF (%s, calls of %ld frames) delivered %ld", N, ch, F, vh_tname [rt], kmax, got) ;
		else vh_stat ("eof_ok", 1) ;
		free (rb) ;
		}
	vh_check_inv (s, "read to EOF") ;
	sf_close (s) ; mv_free (&m) ;
}

int main (int argc, char **argv)
{	int f, c, k, r, e ;
	static const long rates_q [] = { 8000, 44100, 1, 2, 4000, 11025, 22050, 48000, 65535, 65536, 96000, 192000, 16777217, 2147483647 } ;
	static const sf_count_t fr_in [] = { 0, 12345, -1, ((sf_count_t) 1) << 62 } ;
	static const int endians [] = { SF_ENDIAN_FILE, SF_ENDIAN_LITTLE, SF_ENDIAN_BIG, SF_ENDIAN_CPU } ;
	vh_init (argc, argv, "c04_closed_file", "C04") ;
	vh_enum_formats () ;
	for (f = 0 ; f < vh_nfmts ; f++)
	{	int chs [12], nch ;
		if (vh_fmts [f].major == SF_FORMAT_SD2) continue ;
		for (e = 0 ; e < 4 ; e++)
		{	int format = vh_fmts [f].format | endians [e] ;
			nch = vh_channels_for (format, chs, 12, vh_thorough) ;
			for (c = 0 ; c < nch ; c++)
			{	int ch = chs [c] ;
				for (r = 0 ; r < 14 ; r++)
				{	long rate = rates_q [r], Ns [24] ; int nN = 0, B ;
					if (!vh_accepts (format, ch, (int) rate)) continue ;
					if (e != 0 && r > 1) continue ;				/* explicit byte order: two rates suffice */
					B = vh_block (format, ch, (int) rate) ;
					Ns [nN++] = 0 ; Ns [nN++] = 1 ; Ns [nN++] = B + 1 ; Ns [nN++] = -1 ;
					if (r < 2 || vh_thorough)
					{	Ns [nN++] = 2 ; Ns [nN++] = 3 ; Ns [nN++] = 255 ; Ns [nN++] = -1 ;
						if (B > 1) { Ns [nN++] = B - 1 ; Ns [nN++] = B ; Ns [nN++] = 2 * B - 1 ; Ns [nN++] = 2 * B ; Ns [nN++] = 2 * B + 1 ; Ns [nN++] = 3 * B + 7 ; }
						Ns [nN++] = 4097 ; Ns [nN++] = 8193 / ch + 1 ;
						if (vh_thorough) { Ns [nN++] = -1 ; Ns [nN++] = -1 ; Ns [nN++] = -2 ; }
						}
					if (ch > 64) nN = 4 ;
					for (k = 0 ; k < nN ; k++)
					{	if (!vh_case ("%s/%s ch=%d rate=%ld Nidx=%d", vh_fname (format), vh_endname (format), ch, rate, k)) continue ;
						{	long N = Ns [k] ; int pmode = vh_rint (4) ; sf_count_t fi = fr_in [vh_rint (4)] ;
							if (N == -1) N = vh_rint (ch > 8 ? 200 : 6000) ; else if (N == -2) N = vh_rint (100000 / ch) ;
							if (ch > 64 && N > 40) N = 40 ;
							if (pmode == 1 && N > 400) pmode = 2 ;
							vh_distinct (vh_fnv (0, &format, 4) ^ ((uint64_t) ch << 33) ^ ((uint64_t) rate * 2654435761u) ^ ((uint64_t) N << 12) ^ pmode) ;
							vh_statf (1, "container:%s", vh_short_major (format & SF_FORMAT_TYPEMASK)) ;
							vh_sample ("%s endian=%s ch=%d rate=%ld N=%ld partition-mode=%d frames-field-at-open=%lld", vh_fname (format), vh_endname (format), ch, rate, N, pmode, (long long) fi) ;
							run_case (format, ch, rate, N, pmode, fi) ;
							}
						}
					}
				}
			}
		}
	return vh_finish () ;
}
