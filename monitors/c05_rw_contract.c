/* C05 — read and write calls honour their count, bounds and position contract.
** Oracle: a sequential reference read of the same file; exact-size (ASan red-zoned) caller buffers pre-filled with a canary;
** positions from the read-only hook (and public SEEK_CUR where the handle is seekable).
*/
#include "vh.h"
#include "foreign.h"

static void check_reads_m (MEMF m, const char *fn, int format, int ch, int rate, int t, int framewise) ;
static void check_reads (int format, int ch, int rate, int t, int framewise)
{	MEMF m ; const char *fn = vh_fname (format) ; int B = vh_block (format, ch, rate) ;
	long N = B > 1 ? 3 * B + B / 2 + 3 : 9001 ;	/* longer than the largest staging buffer (8192 items) */
	if (N < 3000) N = 3000 + B / 2 + 3 ;		/* long enough for requests beyond the staging buffers even when the codec block is small (PAF 24: 10 frames) */
	if (N * ch > 60000) N = 60000 / ch + 1 ;
	if (vh_make_file (&m, format, ch, rate, N, 1 + ((t + framewise) & 1)) != 0) { vh_statf (1, "cannot_write:%s", fn) ; mv_free (&m) ; return ; }	/* two-tone or position-addressable noise */
	check_reads_m (m, fn, format, ch, rate, t, framewise) ;
}
/* the read contract on any file image (owns and frees it); format 0: a file the library did not write, what it is follows from opening it */
static void check_reads_m (MEMF m, const char *fn, int format, int ch, int rate, int t, int framewise)
{	SNDFILE *s ; SF_INFO ri ; int ts = vh_tsize [t], B, i, j, KB ; long F, got ; char *ref ;
	if (format == 0)
	{	s = vh_open_r (&m, 0, 0, 0, &ri) ; if (s == NULL) { vh_stat ("foreign_files_refused", 1) ; mv_free (&m) ; return ; }
		format = ri.format ; ch = ri.channels ; rate = ri.samplerate ; sf_close (s) ; if (ch < 1 || ch > 8) { mv_free (&m) ; return ; } }
	B = vh_block (format, ch, rate) ; KB = ((format & SF_FORMAT_SUBMASK) >= SF_FORMAT_ALAC_16 && (format & SF_FORMAT_SUBMASK) <= SF_FORMAT_ALAC_32) ? 4096 : B ;	/* packet length for the key classes */
	s = vh_open_r (&m, format, ch, rate, &ri) ;
	if (s == NULL) { vh_viol (vh_key ("C05|reopen-failed|%s", fn), "%s", sf_strerror (NULL)) ; mv_free (&m) ; return ; }
	F = (long) ri.frames ; if (F < 0 || F > 2000000) { vh_viol (vh_key ("C05|frames-insane|%s", fn), "F=%ld", F) ; sf_close (s) ; mv_free (&m) ; return ; }
	ref = vh_guard_alloc ((F + B + 8) * ch * ts, 0) ;
	got = vh_read_t (s, t, 1, ref, (F + B + 8) * ch, ch) / ch ;		/* the reference stream: one sequential read */
	sf_close (s) ;
	vh_stat ("files", 1) ;
	{	long poss [6], sizes [24] ; int np = 0, ns = 0 ;
		poss [np++] = 0 ; poss [np++] = B > 1 ? B / 2 + 1 : 17 ; poss [np++] = got > B ? (got - 1) / B * B : 0 ; poss [np++] = got > 0 ? got - 1 : 0 ; poss [np++] = got ; poss [np++] = got / 2 ;
		for (i = 0 ; i < np ; i++)
		{	long p = poss [i], rem = got - p ;
			if (p < 0 || p > got) continue ;
			ns = 0 ; sizes [ns++] = 1 ; sizes [ns++] = 2 ; sizes [ns++] = 3 ; sizes [ns++] = 7 ;
			if (B > 1) { sizes [ns++] = B - 1 ; sizes [ns++] = B ; sizes [ns++] = B + 1 ; }
			sizes [ns++] = 2047 / ch + 1 ; sizes [ns++] = 2049 / ch + 1 ; sizes [ns++] = 4097 / ch + 1 ; sizes [ns++] = 8200 / ch + 1 ;
			if (rem > 1) sizes [ns++] = rem - 1 ; sizes [ns++] = rem ; sizes [ns++] = rem + 1 ; sizes [ns++] = 3 * rem + 5 ; sizes [ns++] = 1 + vh_rint (3000) ;
			for (j = 0 ; j < ns ; j++)
			{	long kf = sizes [j], k, r, exp ; int onebyte_odd = 0 ; unsigned char *buf ; SF_VERIF_STATE st0, st1 ; long a ; int seekable ;
				if (kf <= 0) continue ;
				k = kf * ch ;
				if (!framewise && j == 3 && ch > 1) k = kf * ch ;	/* item calls must still be whole frames (partial frames are C09's business) */
				s = vh_open_r (&m, format, ch, rate, &ri) ; if (s == NULL) break ;
				seekable = ri.seekable ;
				/* reach position p: by seek when the codec can, else by reading p frames */
				if (p > 0)
				{	sf_count_t q = seekable ? sf_seek (s, p, SEEK_SET) : -1 ;
					if (q != p)
					{	char *skip = malloc ((size_t) p * ch * ts + 1) ; long sk ;
						if (q >= 0) sf_seek (s, 0, SEEK_SET) ;
						sf_close (s) ; s = vh_open_r (&m, format, ch, rate, &ri) ;
						sk = vh_read_t (s, t, 1, skip, p * ch, ch) / ch ; free (skip) ;
						if (sk != p) { sf_close (s) ; continue ; }		/* partition consistency is C06's; here we need the position */
						}
					}
				vh_state (s, &st0) ;
				buf = vh_guard_alloc ((size_t) k * ts, 0xA5) ;
				r = vh_read_t (s, t, framewise, buf, k, ch) ;
				vh_state (s, &st1) ;
				exp = rem * ch < k ? rem * ch : k ;
				vh_stat ("reads_checked", 1) ;
				vh_distinct (vh_fnv (0, &format, 4) ^ ((uint64_t) ch << 20) ^ ((uint64_t) t << 30) ^ ((uint64_t) framewise << 33) ^ ((uint64_t) p << 34) ^ ((uint64_t) kf * 2654435761u)) ;
				{	/* bytes that follow the audio data in the container (pad byte, VOC terminator) but are shorter than one frame */
					long bw = (vh_bits (format) ? vh_bits (format) / 8 : 1) * ch, trailing = (long) (m.len - (st0.dataoffset + got * bw)) ;
					onebyte_odd = (vh_sample_granular (format) && trailing > 0 && trailing < bw && k > rem * ch) ; }
				if (r < 0 || r > k || r % ch) vh_viol (vh_key ("C05|read-return-range|%s%s", fn, onebyte_odd ? "|trailing-bytes-shorter-than-a-frame,request-past-end" : ""), "pos %ld, asked %ld items (%s%s), returned %ld", p, k, framewise ? "readf_" : "read_", vh_tname [t], r) ;
				else
				{	if (r != exp) vh_viol (vh_key ("C05|read-count|%s|%s", fn, r < exp ? (p + r / ch >= got - got % B && B > 1 ? "short-in-last-block" : "short-before-end") : "long"),
							"pos %ld of %ld (F=%ld, ch=%d), asked %ld items (%s), returned %ld, expected %ld", p, got, F, ch, k, vh_tname [t], r, exp) ;
					if (r > 0 && memcmp (buf, ref + p * ch * ts, (size_t) (r < exp ? r : exp) * ts) != 0)
						vh_viol (vh_key ("C05|read-data|%s|%s|%s", fn, (KB > 1 && p + r / ch > got - got % KB) ? "in-last-block" : "before-last-block", ((t + framewise) & 1) ? "noise" : "two-tone"), "pos %ld of %ld (block %d), %ld items (%s): data differs from the sequential reference", p, got, KB, r, vh_tname [t]) ;
					/* the part of the caller's buffer beyond r: untouched or zero-filled; at end of data (r == 0) it must be zero-filled */
					{	long z = 0, c5 = 0, other = 0, undef = vh_undefined_bytes (buf + r * ts, (size_t) (k - r) * ts) ;
						if (undef) vh_viol (vh_key ("C05|read-tail-undefined|%s", fn), "pos %ld asked %ld got %ld: %ld bytes beyond the returned items were overwritten with values memcheck calls undefined", p, k, r, undef) ;
						for (a = r * ts ; a < k * ts ; a++) { if (buf [a] == 0) z++ ; else if (buf [a] == 0xA5) c5++ ; else other++ ; }
						if (other) vh_viol (vh_key ("C05|read-tail-garbage|%s%s", fn, onebyte_odd ? "|trailing-bytes-shorter-than-a-frame,request-past-end" : ""), "pos %ld asked %ld got %ld: %ld bytes beyond the returned items hold neither the canary nor zero", p, k, r, other) ;
						if (r == 0 && (c5 || other)) vh_viol (vh_key ("C05|eof-not-zero-filled|%s", fn), "read at end of data returned 0 but left %ld of %ld bytes unzeroed", c5 + other, k * ts) ;
						if (r == 0) vh_stat ("eof_reads_checked", 1) ; else if (r < k) vh_stat (z ? "partial_tail_zeroed" : "partial_tail_untouched", 1) ;
						}
					if (r == 0 && sf_error (s) != 0) vh_viol (vh_key ("C05|eof-sets-error|%s", fn), "read at end of data set sf_error=%d (%s)", sf_error (s), sf_strerror (s)) ;
					if (st1.read_current - st0.read_current != r / ch)
						vh_viol (vh_key ("C05|read-position|%s", fn), "pos %ld: read returned %ld frames but the read position moved %ld -> %ld", p, r / ch, (long) st0.read_current, (long) st1.read_current) ;
					if (seekable)
					{	sf_count_t q = sf_seek (s, 0, SEEK_CUR) ;
						if (q != p + r / ch) vh_viol (vh_key ("C05|read-position-public|%s", fn), "after reading %ld frames at %ld, SEEK_CUR reports %ld", r / ch, p, (long) q) ; }
					}
				vh_check_inv (s, "read") ;
				free (buf) ; sf_close (s) ;
				}
			}
		}
	/* raw reads on sample-granular encodings: bytes must be the file's bytes, position moves by bytes/blockwidth */
	if (vh_sample_granular (format) && got > 40)
	{	SF_VERIF_STATE st0, st1 ; long bw, p = 11, nb ; unsigned char *buf ;
		s = vh_open_r (&m, format, ch, rate, &ri) ;
		vh_state (s, &st0) ; bw = (vh_bits (format) ? vh_bits (format) / 8 : 1) * ch ;
		if (ri.seekable && sf_seek (s, p, SEEK_SET) == p)
		{	sf_count_t r ; vh_state (s, &st0) ; nb = 23 * bw ; buf = vh_guard_alloc (nb, 0xA5) ;
			r = sf_read_raw (s, buf, nb) ; vh_state (s, &st1) ; vh_stat ("raw_reads_checked", 1) ;
			if (r != nb) vh_viol (vh_key ("C05|raw-read-count|%s", fn), "asked %ld bytes, got %ld", nb, (long) r) ;
			else if (st0.dataoffset + p * bw + nb <= m.len && memcmp (buf, m.d + st0.dataoffset + p * bw, nb)) vh_viol (vh_key ("C05|raw-read-data|%s", fn), "raw bytes differ from the file image at frame %ld", p) ;
			if (st1.read_current - st0.read_current != 23) vh_viol (vh_key ("C05|raw-read-position|%s", fn), "raw read of 23 frames moved the position by %ld", (long) (st1.read_current - st0.read_current)) ;
			free (buf) ;
			}
		sf_close (s) ;
		}
	free (ref) ; mv_free (&m) ;
}

static void check_writes (int format, int ch, int rate, int t, int framewise)
{	MEMF m ; SNDFILE *s ; const char *fn = vh_fname (format) ; int ts = vh_tsize [t], B = vh_block (format, ch, rate), j, ns = 0 ; long sizes [20], total = 0 ;
	memset (&m, 0, sizeof (m)) ;
	s = vh_open_w (&m, format, ch, rate, NULL) ;
	if (s == NULL) { vh_statf (1, "cannot_open_w:%s", fn) ; return ; }
	sizes [ns++] = 1 ; sizes [ns++] = 2 ; sizes [ns++] = 3 ; sizes [ns++] = 7 ;
	if (B > 1) { sizes [ns++] = B - 1 ; sizes [ns++] = B ; sizes [ns++] = B + 1 ; }
	sizes [ns++] = 2047 / ch + 1 ; sizes [ns++] = 2049 / ch + 1 ; sizes [ns++] = 4097 / ch + 1 ; sizes [ns++] = 8200 / ch + 1 ; sizes [ns++] = 1 + vh_rint (3000) ; sizes [ns++] = 1 ;
	for (j = 0 ; j < ns ; j++)
	{	long kf = sizes [j], k = kf * ch, w, a ; SF_VERIF_STATE st0, st1 ; char *src = vh_guard_alloc ((size_t) k * ts, 0) ;
		for (a = 0 ; a < k ; a++)
		{	double v = 0.5 * sin ((total * ch + a) * 0.03) ;
			switch (t) { case T_SHORT : ((short *) src) [a] = (short) (v * 30000) ; break ; case T_INT : ((int *) src) [a] = (int) (v * 2e9) ; break ;
				case T_FLOAT : ((float *) src) [a] = (float) v ; break ; default : ((double *) src) [a] = v ; } }
		vh_state (s, &st0) ;
		w = vh_write_t (s, t, framewise, src, k, ch) ;
		vh_state (s, &st1) ;
		vh_stat ("writes_checked", 1) ;
		vh_distinct (vh_fnv (0, &format, 4) ^ ((uint64_t) ch << 20) ^ ((uint64_t) t << 30) ^ ((uint64_t) framewise << 33) ^ ((uint64_t) total << 34) ^ ((uint64_t) kf * 2654435761u) ^ 0x5555) ;
		if (w != k) vh_viol (vh_key ("C05|write-count|%s", fn), "healthy I/O: %s%s of %ld items returned %ld (err %d)", framewise ? "writef_" : "write_", vh_tname [t], k, w, sf_error (s)) ;
		if (w >= 0 && w <= k)
		{	if (st1.write_current - st0.write_current != w / ch)
				vh_viol (vh_key ("C05|write-position|%s", fn), "write returned %ld frames but the write position moved %ld -> %ld", w / ch, (long) st0.write_current, (long) st1.write_current) ;
			if (st1.frames != (st1.write_current > st0.frames ? st1.write_current : st0.frames))
				vh_viol (vh_key ("C05|write-framecount|%s", fn), "after writing %ld frames at %ld the frame count is %ld", w / ch, (long) st0.write_current, (long) st1.frames) ;
			}
		if (sf_error (s) != 0 && w == k) vh_viol (vh_key ("C05|write-sets-error|%s", fn), "successful write left sf_error=%d", sf_error (s)) ;
		vh_check_inv (s, "write") ;
		total += kf ; free (src) ;
		if (w != k) break ;
		}
	/* raw write on sample-granular encodings */
	if (vh_sample_granular (format))
	{	long bw = (vh_bits (format) ? vh_bits (format) / 8 : 1) * ch, nb = 19 * bw ; SF_VERIF_STATE st0, st1 ; char *src = vh_guard_alloc (nb, 0x11) ; sf_count_t w ;
		vh_state (s, &st0) ; w = sf_write_raw (s, src, nb) ; vh_state (s, &st1) ; vh_stat ("raw_writes_checked", 1) ;
		if (w != nb) vh_viol (vh_key ("C05|raw-write-count|%s", fn), "asked %ld bytes, wrote %ld", nb, (long) w) ;
		else if (st1.write_current - st0.write_current != 19) vh_viol (vh_key ("C05|raw-write-position|%s", fn), "raw write of 19 frames moved the position by %ld", (long) (st1.write_current - st0.write_current)) ;
		free (src) ;
		}
	sf_close (s) ; mv_free (&m) ;
}

int main (int argc, char **argv)
{	int f, c, t, v ;
	vh_init (argc, argv, "c05_rw_contract", "C05") ;
	vh_enum_formats () ;
	for (f = 0 ; f < vh_nfmts ; f++)
	{	int chs [12], nch, format = vh_fmts [f].format ;
		if (vh_fmts [f].major == SF_FORMAT_SD2) continue ;
		nch = vh_channels_for (format, chs, 12, vh_thorough) ;
		for (c = 0 ; c < nch ; c++) for (t = 0 ; t < T_N ; t++) for (v = 0 ; v < 2 ; v++)
		{	if (chs [c] > 17 && (t & 1)) continue ;
			if (vh_case ("%s ch=%d %s %s reads", vh_fname (format), chs [c], vh_tname [t], v ? "frames" : "items"))
			{	vh_statf (1, "fmt:%s", vh_fname (format)) ;
				vh_sample ("%s ch=%d type=%s variant=%s: reads at positions {0, mid-block, last block, F-1, F, F/2} x ~16 request sizes", vh_fname (format), chs [c], vh_tname [t], v ? "sf_readf" : "sf_read") ;
				check_reads (format, chs [c], 8000, t, v) ; }
			if (vh_case ("%s ch=%d %s %s writes", vh_fname (format), chs [c], vh_tname [t], v ? "frames" : "items"))
				check_writes (format, chs [c], 8000, t, v) ;
			}
		}
	/* files as other programs write them (harness/foreign.h): the read contract needs no model of the file beyond its own sequential read */
	for (f = 0 ; f < foreign_count () ; f++) for (t = 0 ; t < T_N ; t++) for (v = 0 ; v < 2 ; v++)
	{	unsigned char *b = NULL ; long n = 0 ; const char *nm = foreign_make (f, &b, &n) ; MEMF m ; char fnb [96] ;
		if (!vh_case ("foreign file %s %s %s reads", nm, vh_tname [t], v ? "frames" : "items")) { free (b) ; continue ; }
		vh_stat ("foreign_file_read_cases", 1) ; if (t == 0 && v == 0) vh_sample ("foreign file %s (%ld bytes): reads at 6 positions x ~16 request sizes in 4 types against its own sequential read", nm, n) ;
		memset (&m, 0, sizeof (m)) ; m.d = b ; m.len = n ; m.cap = n ; snprintf (fnb, sizeof (fnb), "foreign:%s", nm) ;
		check_reads_m (m, fnb, 0, 0, 0, t, v) ;
		}
	return vh_finish () ;
}
