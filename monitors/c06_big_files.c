/* C06 - seek and read consistency in files larger than 2 GiB / 4 GiB (see bigfiles.inc.h) */
#define BIG_C11 0
#define BIG_C06 1
#include "bigfiles.inc.h"
