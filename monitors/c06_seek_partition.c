/* C06 — decoded audio depends only on the frame position (partition and seek consistency).
** Oracle: one sequential reference read per sample type; a random walk of reads (all sizes, all four types, item and
** frame variants) and seeks (SET/CUR/END, block-boundary targets) on ONE handle must deliver ref[pos...] every time.
*/
#include "vh.h"
#include "foreign.h"

static void walk_m (MEMF m, const char *fn, int format, int ch, int rate, int B, int mode, int steps) ;
static void walk (int format, int ch, int rate, int mode, int steps, int noise)
{	MEMF m ; const char *fn = vh_fname (format) ; int B = vh_block (format, ch, rate), sub = format & SF_FORMAT_SUBMASK ;
	long N = B > 1 ? 4 * B + B / 3 + 5 : 4507 ;	/* at least ~4500 frames so that requests beyond the 2048/4096-item staging buffers exist for small-block codecs too */ int lossless = vh_is_lossless_int (format) || vh_is_fp (sub) ;
	if (sub >= SF_FORMAT_ALAC_16 && sub <= SF_FORMAT_ALAC_32) { B = 4096 ; N = 2 * 4096 + 1500 ; }
	if (N < 4500 + B) N = 4500 + B + B / 3 ;
	if (N * ch > 80000) N = 80000 / ch + 1 ;
	if (vh_make_file (&m, format, ch, rate, N, noise ? 2 : lossless ? 0 : 1) != 0) { vh_statf (1, "cannot_write:%s", fn) ; mv_free (&m) ; return ; }
	walk_m (m, fn, format, ch, rate, B, mode, steps) ;
}
/* the oracle proper, on any file image (owns and frees it): needs no model of the file, so files the library did not write itself qualify too */
static void walk_m (MEMF m, const char *fn, int format, int ch, int rate, int B, int mode, int steps)
{	SNDFILE *s ; SF_INFO ri ; int t, st, sub = format & SF_FORMAT_SUBMASK ; long F, got = -1, pos = 0 ; char *ref [T_N] ;
	if (format == 0)		/* a foreign file: what it is follows from opening it */
	{	s = vh_open_r (&m, 0, 0, 0, &ri) ; if (s == NULL) { vh_stat ("foreign_files_refused", 1) ; mv_free (&m) ; return ; }
		format = ri.format ; ch = ri.channels ; rate = ri.samplerate ; sub = format & SF_FORMAT_SUBMASK ; B = vh_block (format, ch, rate) ; sf_close (s) ;
		if (ch < 1 || ch > 8) { mv_free (&m) ; return ; } }
	/* references: one sequential read per type, each from a fresh handle */
	for (t = 0 ; t < T_N ; t++)
	{	long g ;
		s = vh_open_r (&m, format, ch, rate, &ri) ;
		if (s == NULL) { vh_viol (vh_key ("C06|reopen-failed|%s", fn), "%s", sf_strerror (NULL)) ; while (t-- > 0) free (ref [t]) ; mv_free (&m) ; return ; }
		F = (long) ri.frames ; if (F < 0 || F > 3000000) { sf_close (s) ; while (t-- > 0) free (ref [t]) ; mv_free (&m) ; return ; }
		ref [t] = vh_guard_alloc ((size_t) (F + B + 8) * ch * vh_tsize [t], 0) ;
		g = vh_read_t (s, t, 1, ref [t], (F + B + 8) * ch, ch) / ch ;
		if (got >= 0 && g != got) vh_viol (vh_key ("C06|reference-length-by-type|%s", fn), "sequential read delivers %ld frames as %s but %ld as %s", got, vh_tname [0], g, vh_tname [t]) ;
		if (got < 0 || g < got) got = g ;
		sf_close (s) ;
		}
	/* the four sequential references must agree with each other (the same stored sample through different API types): integer encodings only, within
	** one unit of the narrower representation (rounding variants of the individual codecs), so only gross disagreement - a wrapped accumulator, a wrong scale - counts */
	if (!vh_is_fp (sub) && got > 0)
	{	const short *S = (const short *) ref [T_SHORT] ; const int *I = (const int *) ref [T_INT] ; const float *Fl = (const float *) ref [T_FLOAT] ; const double *D = (const double *) ref [T_DOUBLE] ; long i, nbad = 0 ;
		for (i = 0 ; i < got * ch && !nbad ; i++)
		{	double di = (double) I [i], tol = 65536.0 + 512.0 ;
			if (labs ((long) (I [i] >> 16) - (long) S [i]) > 1) nbad = 1 ;
			else if (fabs (D [i] * 2147483648.0 - di) > tol || fabs ((double) Fl [i] * 2147483648.0 - di) > tol) nbad = 2 ;
			if (nbad) vh_viol (vh_key ("C06|types-disagree|%s|%s", fn, nbad == 1 ? "short-vs-int" : "float-or-double-vs-int"), "ch=%d frame %ld: the same stored sample reads as short %d, int %d, float %.9g, double %.17g (normalised)", ch, i / ch, S [i], I [i], Fl [i], D [i]) ;
			}
		vh_stat ("cross_type_reference_comparisons", 1) ;
		}
	s = vh_open_r (&m, format, ch, rate, &ri) ;
	F = (long) ri.frames ;
	vh_stat ("files", 1) ;
	for (st = 0 ; st < steps ; st++)
	{	int op = mode == 0 ? 0 : vh_rint (10) ;
		if (op < 5)			/* ---- read */
		{	long kf, k, r, exp ; int fw = vh_rint (2) ; char *buf ; int ts ;
			t = vh_rint (T_N) ; ts = vh_tsize [t] ;
			switch (vh_rint (7)) { case 0 : kf = 1 ; break ; case 1 : kf = B > 1 ? B - 1 : 2 ; break ; case 2 : kf = B ; break ; case 3 : kf = B + 1 ; break ;
				case 4 : kf = 1 + vh_rint (300) ; break ; case 5 : kf = 1 + vh_rint (9) ; break ; default : kf = 2049 / ch + 1 + vh_rint (3) ; }
			if (mode == 0 && st % 5 == 4) kf = 4097 / ch + 1 ;
			k = kf * ch ;
			buf = vh_guard_alloc ((size_t) k * ts, 0x77) ;
			r = vh_read_t (s, t, fw, buf, k, ch) ;
			exp = (got - pos) * ch < k ? (got - pos) * ch : k ; if (exp < 0) exp = 0 ;
			vh_stat ("reads", 1) ;
			if (r < 0 || r > k || r % ch) vh_viol (vh_key ("C06|read-return-range|%s", fn), "step %d pos %ld asked %ld returned %ld", st, pos, k, r) ;
			else
			{	if (r != exp) vh_viol (vh_key ("C06|read-count|%s|%s", fn, r < exp ? (B > 1 && pos + r / ch >= got - got % B ? "short-in-last-block" : "short") : "long"),
						"step %d (mode %d): at frame %ld of %ld (F=%ld) a %s read of %ld frames returned %ld, sequential reference has %ld", st, mode, pos, got, F, vh_tname [t], kf, r / ch, exp / ch) ;
				if (r > 0 && pos + r / ch <= got && memcmp (buf, ref [t] + (size_t) pos * ch * ts, (size_t) r * ts) != 0)
				{	long a = 0 ; while (a < r * ts && buf [a] == ref [t][(size_t) pos * ch * ts + a]) a++ ;
					vh_viol (vh_key ("C06|data|%s|%s", fn, mode == 0 ? "partition" : "after-seek"), "step %d: %s read of %ld frames at frame %ld differs from the sequential reference first at frame %ld", st, vh_tname [t], r / ch, pos, pos + a / ts / ch) ;
					free (buf) ; break ;
					}
				pos += r / ch ;
				}
			free (buf) ;
			if (mode == 0 && r == 0) break ;
			}
		else if (op < 9)	/* ---- seek */
		{	long tg, off, base ; int wh = vh_rint (3) ; sf_count_t q ;
			switch (vh_rint (10)) { case 0 : tg = 0 ; break ; case 1 : tg = 1 ; break ; case 2 : tg = B - 1 ; break ; case 3 : tg = B ; break ; case 4 : tg = B + 1 ; break ;
				case 5 : tg = F - B ; break ; case 6 : tg = F - 1 ; break ; case 7 : tg = F ; break ; case 8 : tg = (1 + vh_rint (4)) * (long) B + vh_rint (2) ; break ; default : tg = vh_rint ((int) F + 1) ; }
			if (vh_rint (40) == 0) tg = F + 1 + vh_rint (3) ; if (vh_rint (40) == 0) tg = -1 - vh_rint (3) ;
			if (tg > F + 4) tg = F ;
			base = wh == 0 ? 0 : wh == 1 ? pos : F ; off = tg - base ;
			{	static const int quals [] = { 0, 0, SFM_READ, SFM_RDWR } ; int ql = quals [vh_rint (4)] ; if (wh != 0 && ql == SFM_RDWR) ql = SFM_READ ;	/* whence may carry a mode qualifier (SFM_RDWR only with SEEK_SET); on a read handle all of them mean the read pointer */
				q = sf_seek (s, off, (wh == 0 ? SEEK_SET : wh == 1 ? SEEK_CUR : SEEK_END) | ql) ; }
			vh_stat ("seeks", 1) ;
			if (q == tg && tg >= 0 && tg <= F) { pos = tg ; vh_stat ("seeks_ok", 1) ; }
			else if (q == -1)
			{	sf_count_t c ;
				vh_stat ("seeks_refused", 1) ;
				if (sf_error (s) == 0) vh_viol (vh_key ("C06|seek-fails-without-error|%s", fn), "sf_seek(%ld, whence %d) returned -1 but sf_error is 0", off, wh) ;
				/* a refusal is allowed by the property (-1 with an error); sample-granular encodings however have no reason to refuse an in-range target */
				if (ri.seekable && tg >= 0 && tg <= F && vh_sample_granular (format))
					vh_viol (vh_key ("C06|seek-refused-in-range|%s", fn), "sample-granular seekable handle: sf_seek to frame %ld of %ld (whence %d, from %ld) was refused", tg, F, wh, pos) ;
				else if (tg >= 0 && tg <= F) vh_statf (1, "codec_refuses_seek:%s", fn) ;
				/* a refused seek must leave a coherent position: SEEK_CUR must name the frame the next read delivers */
				c = sf_seek (s, 0, SEEK_CUR) ;
				if (c >= 0)
				{	if (c != pos) { vh_viol (vh_key ("C06|position-after-refused-seek|%s", fn), "after a refused seek (target %ld) from frame %ld, SEEK_CUR reports %ld", tg, pos, (long) c) ; pos = (long) c ; } }
				else if (ri.seekable) vh_viol (vh_key ("C06|seek-cur-fails|%s", fn), "zero-offset SEEK_CUR returned -1 on a seekable handle") ;
				}
			else
			{	vh_viol (vh_key ("C06|seek-return|%s", fn), "sf_seek (%ld, whence %d) from frame %ld (F=%ld): returned %ld, neither the target %ld nor -1", off, wh, pos, F, (long) q, tg) ;
				if (q >= 0 && q <= F) pos = (long) q ; else break ;
				}
			}
		else				/* ---- zero-offset SEEK_CUR reports the next frame */
		{	sf_count_t c = sf_seek (s, 0, SEEK_CUR) ;
			vh_stat ("tell_checks", 1) ;
			if (c == -1 && !ri.seekable) continue ;
			if (c != pos) { vh_viol (vh_key ("C06|seek-cur|%s", fn), "step %d: zero-offset SEEK_CUR reports %ld, the next frame to be delivered is %ld", st, (long) c, pos) ; break ; }
			}
		if (vh_check_inv (s, "walk step")) break ;
		}
	vh_stat ("walk_steps", st) ;
	sf_close (s) ;
	for (t = 0 ; t < T_N ; t++) free (ref [t]) ;
	mv_free (&m) ;
}

int main (int argc, char **argv)
{	int f, c, w, e ;
	static const int endians [] = { SF_ENDIAN_FILE, SF_ENDIAN_BIG, SF_ENDIAN_LITTLE } ;
	vh_init (argc, argv, "c06_seek_partition", "C06") ;
	vh_enum_formats () ;
	for (f = 0 ; f < vh_nfmts ; f++) for (e = 0 ; e < (vh_thorough ? 3 : 1) ; e++)
	{	int chs [12], nch, format = vh_fmts [f].format | endians [e], nw = vh_thorough ? 32 : 16 ;
		if (vh_fmts [f].major == SF_FORMAT_SD2) continue ;
		if (e > 0 && !vh_accepts (format, 1, 8000) && !vh_accepts (format, 2, 8000)) continue ;
		nch = vh_channels_for (format, chs, 12, vh_thorough) ;
		for (c = 0 ; c < nch ; c++) for (w = 0 ; w < nw ; w++)
		{	int mode = (w & 1), steps = mode == 0 ? 100000 : (vh_thorough ? 6000 : 2000) ;
			if (chs [c] > 17 && w > 1) continue ;
			if (!vh_case ("%s/%s ch=%d walk=%d %s", vh_fname (format), vh_endname (format), chs [c], w, mode ? "seek+read" : "partition")) continue ;
			vh_distinct (vh_fnv (0, &format, 4) ^ ((uint64_t) chs [c] << 32) ^ ((uint64_t) w << 44) ^ vh_rs) ;
			vh_statf (1, "fmt:%s", vh_fname (format)) ;
			vh_sample ("%s ch=%d: %s walk of up to %d steps (reads of 1, B-1, B, B+1, random sizes in 4 types; seeks SET/CUR/END to 0, 1, B-1, B, B+1, F-B, F-1, F, random, past-end, negative)", vh_fname (format), chs [c], mode ? "seek+read" : "pure partition", steps) ;
			walk (format, chs [c], 8000, mode, steps, (w & 2) != 0) ;		/* walks 2, 3, 6, 7 ...: position-addressable noise instead of the smooth signal */
			}
		}
	/* files as other programs write them (harness/foreign.h): the oracle needs no model of the file */
	for (f = 0 ; f < foreign_count () ; f++) for (w = 0 ; w < (vh_thorough ? 24 : 6) ; w++)
	{	unsigned char *b = NULL ; long n = 0 ; const char *nm = foreign_make (f, &b, &n) ; MEMF m ; char fnb [96] ; int mode = (w & 1) ;
		if (!vh_case ("foreign file %s walk=%d %s", nm, w, mode ? "seek+read" : "partition")) { free (b) ; continue ; }
		vh_distinct (vh_fnv (0, nm, strlen (nm)) ^ ((uint64_t) w << 44) ^ vh_rs) ; vh_stat ("foreign_file_walks", 1) ;
		if (w == 0) vh_sample ("foreign file %s (%ld bytes): pure partition and seek+read walks against its own sequential references", nm, n) ;
		memset (&m, 0, sizeof (m)) ; m.d = b ; m.len = n ; m.cap = n ; snprintf (fnb, sizeof (fnb), "foreign:%s", nm) ;
		walk_m (m, fnb, 0, 0, 0, 1, mode, mode == 0 ? 100000 : (vh_thorough ? 6000 : 2000)) ;
		}
	return vh_finish () ;
}
