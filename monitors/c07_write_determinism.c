/* C07 — output bytes are independent of how writes are split and of when they run.
** Oracle: byte equality of the produced file images.  Reference = all samples in one call with the clock pinned to T0.
** Variants: partitions (1-frame calls, small odd sizes, B-1/B/B+1, larger than the staging buffers), item vs frame
** entry points, SFC_UPDATE_HEADER_NOW between calls, SFC_SET_UPDATE_HEADER_AUTO, a fresh child process, and a different
** wall clock (then only the PEAK timestamp and the MAT5 header date text may differ).
** The clock is pinned by linking with -Wl,--wrap=time,--wrap=gettimeofday.
*/
#include "vh.h"
#include <sys/time.h>
#include <sys/wait.h>

static time_t fake_now = 1700000000 ;
time_t __wrap_time (time_t *t) { if (t) *t = fake_now ; return fake_now ; }
int __wrap_gettimeofday (struct timeval *tv, void *tz) { (void) tz ; if (tv) { tv->tv_sec = fake_now ; tv->tv_usec = 123456 ; } return 0 ; }

enum { V_SINGLE, V_ONES, V_SMALLODD, V_BLOCK, V_BIG, V_MIXED, V_UPDATE, V_AUTO, V_CHILD, V_CLOCK, V_N } ;
static const char *vname [] = { "single", "1-frame-calls", "small-odd", "B-1/B/B+1", ">staging", "mixed", "update-header-now", "auto-header", "child-process", "other-clock" } ;

typedef struct { int format, ch, rate, t, meta, opt ; long N ; void *data ; } JOB ;	/* opt: a header-only writer option, the same in every variant of the job */

static int produce (const JOB *j, int variant, MEMF *m, sf_count_t *doff, sf_count_t *dlen)
{	SNDFILE *s ; long items = j->N * j->ch, done = 0 ; int ts = vh_tsize [j->t], B = vh_block (j->format, j->ch, j->rate), step = 0 ; SF_VERIF_STATE st ;
	memset (m, 0, sizeof (*m)) ;
	fake_now = variant == V_CLOCK ? 1800000123 : 1700000000 ;
	s = vh_open_w (m, j->format, j->ch, j->rate, NULL) ;
	if (s == NULL) return -1 ;
	if (j->meta) { sf_set_string (s, SF_STR_TITLE, "determinism") ; sf_set_string (s, SF_STR_SOFTWARE, "c07") ; }
	switch (j->opt)
	{	case 1 : sf_command (s, SFC_SET_ADD_PEAK_CHUNK, NULL, SF_FALSE) ; break ;
		case 2 : if ((j->format & SF_FORMAT_TYPEMASK) == SF_FORMAT_WAVEX) sf_command (s, SFC_WAVEX_SET_AMBISONIC, NULL, SF_AMBISONIC_B_FORMAT) ; break ;
		case 3 : if ((j->format & SF_FORMAT_TYPEMASK) == SF_FORMAT_RF64) sf_command (s, SFC_RF64_AUTO_DOWNGRADE, NULL, SF_TRUE) ; break ;
		default : break ; }
	if (variant == V_AUTO) sf_command (s, SFC_SET_UPDATE_HEADER_AUTO, NULL, SF_TRUE) ;
	while (done < items)
	{	long kf, k ; int fw = 0 ; sf_count_t w ;
		switch (variant)
		{	case V_ONES : kf = j->N > 700 ? 1 + vh_rint (2) : 1 ; break ;
			case V_SMALLODD : kf = 1 + 2 * vh_rint (5) ; break ;
			case V_BLOCK : kf = B > 1 ? B - 1 + vh_rint (3) : 63 + vh_rint (3) ; break ;
			case V_BIG : kf = 2049 / j->ch + 1 + vh_rint (3000) ; break ;
			case V_MIXED : case V_UPDATE : case V_AUTO : kf = (step % 3 == 0) ? 1 + vh_rint (7) : (step % 3 == 1) ? 1 + vh_rint (400) : 2049 / j->ch + vh_rint (200) ; fw = vh_rint (2) ; break ;
			default : kf = j->N ; break ;
			}
		if (variant == V_ONES || variant == V_SMALLODD) fw = step & 1 ;
		k = kf * j->ch ; if (k > items - done) k = items - done ;
		w = vh_write_t (s, j->t, fw, (char *) j->data + done * ts, k, j->ch) ;
		if (w != k) { sf_close (s) ; return -2 ; }
		done += k ; step++ ;
		if (variant == V_UPDATE) sf_command (s, SFC_UPDATE_HEADER_NOW, NULL, 0) ;
		}
	if (sf_close (s) != 0) return -3 ;
	/* where the audio data lies in the finished image: ask a reader (hook) */
	if (doff && dlen)
	{	SF_INFO ri ; *doff = 0 ; *dlen = 0 ; s = vh_open_r (m, j->format, j->ch, j->rate, &ri) ;
		if (s) { vh_state (s, &st) ; *doff = st.dataoffset ; *dlen = st.datalength ; sf_close (s) ; } }
	return 0 ;
}

/* mask what is allowed to depend on the clock: the PEAK chunk timestamp (outside the audio data) and the MAT5 header text */
static void mask_time (MEMF *m, int format, sf_count_t doff, sf_count_t dlen)
{	sf_count_t i ;
	if ((format & SF_FORMAT_TYPEMASK) == SF_FORMAT_MAT5) { for (i = 0 ; i < 124 && i < m->len ; i++) m->d [i] = 0 ; }
	for (i = 0 ; i + 16 <= m->len ; i++)
	{	if (i >= doff && i < doff + dlen && dlen > 0) { i = doff + dlen - 1 ; continue ; }
		if (!memcmp (m->d + i, "PEAK", 4)) memset (m->d + i + 12, 0, 4) ;
		}
}

static void run_case (const JOB *j)
{	MEMF ref, out ; int v, rc ; const char *fn = vh_fname (j->format) ; sf_count_t doff = 0, dlen = 0, o2, l2 ; uint64_t save ;
	save = vh_rs ;
	rc = produce (j, V_SINGLE, &ref, &doff, &dlen) ;
	if (rc != 0) { vh_statf (1, "reference_write_failed:%s", fn) ; mv_free (&ref) ; return ; }
	vh_stat ("reference_files", 1) ;
	for (v = 1 ; v < V_N ; v++)
	{	int same ;
		vh_srand (save + v) ;
		if (v == V_CHILD)
		{	int pfd [2] ; pid_t p ; uint64_t h = 0, hr = vh_fnv (vh_fnv (0, &ref.len, sizeof (ref.len)), ref.d, ref.len) ; int stt ;
			if (pipe (pfd)) continue ;
			fflush (vh_out) ;
			p = fork () ;
			if (p == 0)
			{	MEMF cm ; uint64_t hh = 1 ; close (pfd [0]) ;
				if (produce (j, V_SINGLE, &cm, NULL, NULL) == 0) hh = vh_fnv (vh_fnv (0, &cm.len, sizeof (cm.len)), cm.d, cm.len) ;
				if (write (pfd [1], &hh, 8) != 8) _exit (3) ;
				_exit (0) ;
				}
			close (pfd [1]) ; if (read (pfd [0], &h, 8) != 8) h = 2 ; close (pfd [0]) ; waitpid (p, &stt, 0) ;
			vh_stat ("file_pairs_compared", 1) ;
			if (h != hr) vh_viol (vh_key ("C07|differs|%s|%s", fn, vname [v]), "N=%ld ch=%d %s: a fresh process produced different bytes (digest %016llx vs %016llx)", j->N, j->ch, vh_tname [j->t], (unsigned long long) h, (unsigned long long) hr) ;
			continue ;
			}
		rc = produce (j, v, &out, &o2, &l2) ;
		if (rc != 0) { vh_viol (vh_key ("C07|variant-write-failed|%s|%s", fn, vname [v]), "N=%ld ch=%d %s: rc=%d", j->N, j->ch, vh_tname [j->t], rc) ; mv_free (&out) ; continue ; }
		vh_stat ("file_pairs_compared", 1) ; vh_statf (1, "variant:%s", vname [v]) ;
		if (v == V_CLOCK)
		{	MEMF r2 ; mv_copy (&r2, &ref) ; mask_time (&r2, j->format, doff, dlen) ; mask_time (&out, j->format, o2, l2) ;
			same = (r2.len == out.len && !memcmp (r2.d, out.d, out.len)) ;
			if (!same) { sf_count_t i = 0 ; while (i < r2.len && i < out.len && r2.d [i] == out.d [i]) i++ ;
				vh_viol (vh_key ("C07|time-dependent|%s", fn), "N=%ld ch=%d: output depends on the wall clock outside the PEAK timestamp / MAT5 date text: first difference at byte %ld (lengths %ld / %ld)", j->N, j->ch, (long) i, (long) r2.len, (long) out.len) ; }
			mv_free (&r2) ;
			}
		else
		{	same = (ref.len == out.len && !memcmp (ref.d, out.d, out.len)) ;
			if (!same)
			{	sf_count_t i = 0 ; const char *where ; while (i < ref.len && i < out.len && ref.d [i] == out.d [i]) i++ ;
				where = (i < doff) ? "header" : (dlen > 0 && i >= doff + dlen) ? "after-data" : "data" ;
				vh_viol (vh_key ("C07|differs|%s|%s|%s%s", fn, vname [v], where, (2048 % j->ch) ? "|ch-not-dividing-2048" : ""), "N=%ld ch=%d %s meta=%d: lengths %ld vs %ld, first differing byte %ld (data at %ld..%ld)", j->N, j->ch, vh_tname [j->t], j->meta, (long) ref.len, (long) out.len, (long) i, (long) doff, (long) (doff + dlen)) ;
				}
			}
		mv_free (&out) ;
		}
	mv_free (&ref) ;
}

int main (int argc, char **argv)
{	int f, c, k ;
	vh_init (argc, argv, "c07_write_determinism", "C07") ;
	vh_enum_formats () ;
	for (f = 0 ; f < vh_nfmts ; f++)
	{	int chs [12], nch, format = vh_fmts [f].format ;
		if (vh_fmts [f].major == SF_FORMAT_SD2) continue ;
		nch = vh_channels_for (format, chs, 12, vh_thorough) ;
		for (c = 0 ; c < nch ; c++) for (k = 0 ; k < (vh_thorough ? 80 : 8) ; k++)
		{	JOB j ; long i, items ; int B ;
			if (chs [c] > 17 && k > 0) continue ;
			if (k == 2 && !vh_sample_granular (format)) vh_nostride_next = 1 ;		/* job 2 of a block codec is a file shorter than one block: always part of the memcheck sample */
			if (!vh_case ("%s ch=%d job=%d", vh_fname (format), chs [c], k)) continue ;
			B = vh_block (format, chs [c], 8000) ;
			j.format = format ; j.ch = chs [c] ; j.rate = 8000 ; j.t = (k + (int) vh_seed0) % T_N ; j.meta = (k >> 1) & 1 ; j.opt = vh_rint (6) ; if (j.opt > 3) j.opt = 0 ; vh_statf (1, "writer-option:%d", j.opt) ;
			j.N = k == 0 ? (B > 1 ? 3 * B + 7 : 3001) : k == 1 ? 4097 / chs [c] + 2 : (k == 2 && B > 2) ? 1 + vh_rint (B - 2) : 1 + vh_rint (B > 1 ? 5 * B : 7000) ;
			if (j.N * j.ch > 70000) j.N = 70000 / j.ch ;
			items = j.N * j.ch ; j.data = vh_guard_alloc (items * 8, 0) ;
			for (i = 0 ; i < items ; i++)
			{	double v = 0.55 * sin (i * 0.017) + 0.2 * sin (i * 0.31) + ((int) (vh_rnd () % 2001) - 1000) / 9000.0 ;
				if (k == 3 && (i / 500) % 2) v = ((int) (vh_rnd () % 2001) - 1000) / 1000.0 ;		/* bursts of full-scale noise */
				switch (j.t) { case T_SHORT : ((short *) j.data) [i] = (short) (v * 32000) ; break ; case T_INT : ((int *) j.data) [i] = (int) (v * 2.1e9) ; break ;
					case T_FLOAT : ((float *) j.data) [i] = (float) v ; break ; default : ((double *) j.data) [i] = v ; } }
			vh_distinct (vh_fnv (0, &format, 4) ^ ((uint64_t) j.ch << 33) ^ ((uint64_t) j.t << 40) ^ ((uint64_t) j.N << 8) ^ ((uint64_t) k << 50)) ;
			vh_statf (1, "fmt:%s", vh_fname (format)) ;
			vh_sample ("%s ch=%d type=%s N=%ld metadata=%d: single-call reference vs 9 variants (%s ... %s)", vh_fname (format), j.ch, vh_tname [j.t], j.N, j.meta, vname [1], vname [V_N - 1]) ;
			run_case (&j) ;
			free (j.data) ;
			}
		}
	return vh_finish () ;
}
