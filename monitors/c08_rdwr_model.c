/* C08 — SFM_RDWR keeps independent, correct read and write positions.
** Oracle: an executable sequential model (rp, wp, F, frame ids).  Every written frame carries a fresh id, so every
** read identifies which write it observed.  After every call the return value, the positions (read-only hook) and the
** data are compared with the model; at the end the file is re-opened read-only and compared again.
*/
#include "vh.h"

#define MAXF 6000
typedef struct { long rp, wp, F ; int fid [MAXF] ; } MODEL ;		/* fid: id of the frame, -1 = unspecified (gap) */

static short palette [65536] ; static int npal ;
static int fp_enc ;	/* float/double encoding */
static int g711_enc ;
static int enc_bits ;	/* 8, 16, 24, 32; 0 for G.711 and for float/double encodings (value passes as is) */
static int next_id ;

static void build_palette (int format, int ch, int rate)
{	int sub = format & SF_FORMAT_SUBMASK, i ;
	npal = 0 ; g711_enc = vh_is_g711 (sub) ; fp_enc = vh_is_fp (sub) ; enc_bits = (fp_enc || vh_is_g711 (sub)) ? 0 : vh_bits (format) ;
	if (vh_is_g711 (sub))
	{	/* the 256 decoder outputs are fixed points of decode(encode(.)) (C20 checks that independently) */
		MEMF m ; unsigned char codes [256] ; SF_INFO ri ; SNDFILE *s ; short v [256] ;
		for (i = 0 ; i < 256 ; i++) codes [i] = i ;
		mv_from (&m, codes, 256) ; memset (&ri, 0, sizeof (ri)) ; ri.format = SF_FORMAT_RAW | sub ; ri.channels = 1 ; ri.samplerate = 8000 ;
		s = sf_open_virtual (&MVIO, SFM_READ, &ri, &m) ;
		if (s) { sf_read_short (s, v, 256) ; sf_close (s) ; for (i = 0 ; i < 256 ; i++) palette [npal++] = v [i] ; }
		mv_free (&m) ;
		}
	else if (vh_bits (format) == 8) for (i = -128 ; i < 128 ; i++) palette [npal++] = (short) (i * 256) ;
	else for (i = 1 ; i < 30000 ; i++) palette [npal++] = (short) i ;
	(void) ch ; (void) rate ;
}
static inline short val_of (int id, int c) { return palette [(id * 3 + c * 7) % npal] ; }


/* All eight write and eight read entry points are driven.  Normalisation is switched off on every handle, so float/double
** calls carry the file's integer codes unscaled (docs: "with normalisation off integers pass through unscaled"); 'enc_bits' maps
** the 16-bit palette value to the code of the encoding. */
static double fp_of (short v) { return enc_bits == 0 ? v : enc_bits >= 16 ? ldexp ((double) v, enc_bits - 16) : (double) (v / 256) ; }
static short of_fp (double d) { return enc_bits == 0 ? (short) d : enc_bits >= 16 ? (short) ldexp (d, 16 - enc_bits) : (short) (d * 256) ; }
static void norm_off (SNDFILE *s) { sf_command (s, SFC_SET_NORM_FLOAT, NULL, SF_FALSE) ; sf_command (s, SFC_SET_NORM_DOUBLE, NULL, SF_FALSE) ; }
static sf_count_t wr_frames (SNDFILE *s, const short *sb, int k, int ch, int api)
{	int i, n = k * ch ; int ib [64] ; float fb [64] ; double db [64] ;
	for (i = 0 ; i < n ; i++) { ib [i] = fp_enc ? sb [i] : ((int) sb [i]) * 65536 ; fb [i] = (float) fp_of (sb [i]) ; db [i] = fp_of (sb [i]) ; }
	if (g711_enc) api &= 3 ;	/* the float entry points round where the integer ones truncate: exact reconstruction levels are ties in A-law (judged by C02/C20, not here) */
	vh_statf (1, "write_api:%d", api & 7) ;
	switch (api & 7)
	{	case 0 : return sf_write_short (s, sb, n) / ch ; case 1 : return sf_writef_short (s, sb, k) ;
		case 2 : return sf_write_int (s, ib, n) / ch ; case 3 : return sf_writef_int (s, ib, k) ;
		case 4 : return sf_write_float (s, fb, n) / ch ; case 5 : return sf_writef_float (s, fb, k) ;
		case 6 : return sf_write_double (s, db, n) / ch ; default : return sf_writef_double (s, db, k) ; } }
static sf_count_t rd_frames (SNDFILE *s, short *sb, int k, int ch, int api)
{	int i, n = k * ch ; int ib [64] ; float fb [64] ; double db [64] ; sf_count_t g ;
	vh_statf (1, "read_api:%d", api & 7) ;
	switch (api & 7)
	{	case 0 : return sf_read_short (s, sb, n) / ch ; case 1 : return sf_readf_short (s, sb, k) ;
		case 2 : g = sf_read_int (s, ib, n) / ch ; for (i = 0 ; i < g * ch ; i++) sb [i] = fp_enc ? (short) ib [i] : (short) (ib [i] >> 16) ; return g ;
		case 3 : g = sf_readf_int (s, ib, k) ; for (i = 0 ; i < g * ch ; i++) sb [i] = fp_enc ? (short) ib [i] : (short) (ib [i] >> 16) ; return g ;
		case 4 : g = sf_read_float (s, fb, n) / ch ; for (i = 0 ; i < g * ch ; i++) sb [i] = of_fp (fb [i]) ; return g ;
		case 5 : g = sf_readf_float (s, fb, k) ; for (i = 0 ; i < g * ch ; i++) sb [i] = of_fp (fb [i]) ; return g ;
		case 6 : g = sf_read_double (s, db, n) / ch ; for (i = 0 ; i < g * ch ; i++) sb [i] = of_fp (db [i]) ; return g ;
		default : g = sf_readf_double (s, db, k) ; for (i = 0 ; i < g * ch ; i++) sb [i] = of_fp (db [i]) ; return g ; } }

typedef struct { int kind, a, b, c ; } OP ;		/* kind: 0 W(k) 1 R(k) 2 SEEK(wh,md,sel) 3 TRUNC(sel) 4 UPDATE 5 REOPEN */
static OP alphabet [64] ; static int nalpha ;
static void build_alphabet (int with_trunc)
{	int wh, md, sel ;
	nalpha = 0 ;
	alphabet [nalpha++] = (OP) { 0, 1, 0, 0 } ; alphabet [nalpha++] = (OP) { 0, 3, 0, 0 } ;
	alphabet [nalpha++] = (OP) { 1, 1, 0, 0 } ; alphabet [nalpha++] = (OP) { 1, 3, 0, 0 } ;
	for (wh = 0 ; wh < 3 ; wh++) for (md = 0 ; md < 3 ; md++) for (sel = 0 ; sel < 4 ; sel++) alphabet [nalpha++] = (OP) { 2, wh, md, sel } ;
	if (with_trunc) { alphabet [nalpha++] = (OP) { 3, 0, 0, 0 } ; alphabet [nalpha++] = (OP) { 3, 1, 0, 0 } ; }
	alphabet [nalpha++] = (OP) { 4, 0, 0, 0 } ; alphabet [nalpha++] = (OP) { 5, 0, 0, 0 } ;
}
static const char *op_str (OP o)
{	static char b [4][48] ; static int r ; static const char *whn [] = { "SET", "CUR", "END" }, *mdn [] = { "", "|R", "|W" }, *seln [] = { "0", "-1", "+2", "F" } ;
	r = (r + 1) & 3 ;
	switch (o.kind) { case 0 : snprintf (b [r], 48, "W%d", o.a) ; break ; case 1 : snprintf (b [r], 48, "R%d", o.a) ; break ;
		case 2 : snprintf (b [r], 48, "S(%s%s,%s)", whn [o.a], mdn [o.b], o.c < 4 ? seln [o.c] : "rnd") ; break ; case 3 : snprintf (b [r], 48, "T%d", o.a) ; break ;
		case 4 : snprintf (b [r], 48, "U") ; break ; default : snprintf (b [r], 48, "C") ; }
	return b [r] ; }

typedef struct { int format, ch, rate, route, prepop ; MEMF m ; char path [300] ; SNDFILE *s ; MODEL mo ; const char *fn ; char hist [400] ; int bad ; } RUN ;

static int pad_frame_possible (RUN *r)
{	int sub = r->format & SF_FORMAT_SUBMASK ; return r->ch == 1 && (sub == SF_FORMAT_PCM_S8 || sub == SF_FORMAT_PCM_U8 || vh_is_g711 (sub)) ; }
static SNDFILE *rd_open (RUN *r, int mode, SF_INFO *si)
{	memset (si, 0, sizeof (*si)) ;
	if ((r->format & SF_FORMAT_TYPEMASK) == SF_FORMAT_RAW || mode == SFM_WRITE || (mode == SFM_RDWR && r->mo.F == 0 && !r->prepop)) { si->format = r->format ; si->channels = r->ch ; si->samplerate = r->rate ; }
	{	SNDFILE *s ;
		if (r->route == 0) { r->m.pos = 0 ; s = sf_open_virtual (&MVIO, mode, si, &r->m) ; } else s = sf_open (r->path, mode, si) ;
		if (s) norm_off (s) ;
		return s ; } }

static void fail (RUN *r, const char *what, const char *fmt, ...)
{	char b [600] ; va_list ap ; va_start (ap, fmt) ; vsnprintf (b, sizeof (b), fmt, ap) ; va_end (ap) ;
	vh_viol (vh_key ("C08|%s%s|%s", what, strstr (r->hist, " T") ? "+after-truncate" : "", r->fn), "history [%s] (route %s, %s start): %s", r->hist, r->route ? "path" : "vio", r->prepop ? "pre-populated" : "empty", b) ;
	r->bad = 1 ; }

static void check_state (RUN *r, const char *after)
{	SF_VERIF_STATE st ; vh_state (r->s, &st) ;
	if (st.read_current != r->mo.rp || st.write_current != r->mo.wp || st.frames != r->mo.F)
		fail (r, strcmp (after, "update-header") ? "positions" : "positions-after-update-header", "after %s: library (rp=%ld wp=%ld F=%ld) model (rp=%ld wp=%ld F=%ld)", after, (long) st.read_current, (long) st.write_current, (long) st.frames, r->mo.rp, r->mo.wp, r->mo.F) ;
	vh_check_inv (r->s, after) ; }

static void do_op (RUN *r, OP o)
{	MODEL *mo = &r->mo ; int ch = r->ch, i, c ;
	{	size_t l = strlen (r->hist) ; if (l < sizeof (r->hist) - 20) snprintf (r->hist + l, sizeof (r->hist) - l, "%s%s", l ? " " : "", op_str (o)) ; }
	vh_statf (1, "op:%c", "WRSTUC" [o.kind]) ;
	switch (o.kind)
	{	case 0 :	/* write k frames of fresh ids */
		{	int k = o.a, useint = vh_rint (8) ; sf_count_t w ; short sb [64] ;
			if (mo->wp + k >= MAXF) return ;
			for (i = 0 ; i < k ; i++) { int id = next_id++ ; for (c = 0 ; c < ch ; c++) sb [i * ch + c] = val_of (id, c) ; mo->fid [mo->wp + i] = id ; }
			w = wr_frames (r->s, sb, k, ch, useint) ;
			if (w != k) { fail (r, "write-return", "write of %d frames at %ld returned %ld (err %d)", k, mo->wp, (long) w, sf_error (r->s)) ; return ; }
			for (i = mo->F ; i < mo->wp ; i++) mo->fid [i] = -1 ;		/* gap created by writing beyond the end: unspecified */
			mo->wp += k ; if (mo->wp > mo->F) mo->F = mo->wp ;
			check_state (r, "write") ; return ;
			}
		case 1 :	/* read k frames */
		{	int k = o.a, useint = vh_rint (8) ; sf_count_t g ; short sb [64] ; long exp = mo->F - mo->rp ; if (exp < 0) exp = 0 ; if (exp > k) exp = k ;
			g = rd_frames (r->s, sb, k, ch, useint) ;
			if (g != exp) { fail (r, "read-return", "read of %d frames at rp=%ld (F=%ld) returned %ld, model says %ld", k, mo->rp, mo->F, (long) g, exp) ; return ; }
			for (i = 0 ; i < g ; i++) if (mo->fid [mo->rp + i] >= 0) for (c = 0 ; c < ch ; c++)
			{	short got = sb [i * ch + c], want = val_of (mo->fid [mo->rp + i], c) ;
				if (got != want) { fail (r, "read-data", "frame %ld ch %d: read %d, the last write there stored %d (id %d)", mo->rp + i, c, got, want, mo->fid [mo->rp + i]) ; return ; } }
			mo->rp += g ; vh_stat ("frames_read_and_identified", g) ;
			check_state (r, "read") ; return ;
			}
		case 2 :	/* seek */
		{	static const int whs [] = { SEEK_SET, SEEK_CUR, SEEK_END }, mds [] = { 0, SFM_READ, SFM_WRITE } ; long off, base, base2, tg, tg2 ; sf_count_t q ;
			switch (o.c) { case 0 : off = 0 ; break ; case 1 : off = -1 ; break ; case 2 : off = 2 ; break ; case 3 : off = o.a == 2 ? -mo->F : mo->F ; break ; default : off = vh_rint ((int) mo->F + 4) - (o.a == 2 ? mo->F : o.a == 1 ? (o.b == 1 ? mo->rp : mo->wp) : 0) ; }
			base = o.a == 0 ? 0 : o.a == 2 ? mo->F : (o.b == 1 ? mo->rp : mo->wp) ; base2 = (o.a == 1 && o.b == 0) ? mo->rp : base ;	/* plain SEEK_CUR with rp != wp: either base is accepted */
			tg = base + off ; tg2 = base2 + off ;
			if (tg >= MAXF - 70 || tg2 >= MAXF - 70) return ;
			q = sf_seek (r->s, off, whs [o.a] | mds [o.b]) ;
			if (q == -1)
			{	if (tg >= 0 && tg2 >= 0) { fail (r, "seek-refused", "sf_seek (%ld, %s) to frame %ld refused (err %d)", off, op_str (o), tg, sf_error (r->s)) ; return ; }
				if (sf_error (r->s) == 0) fail (r, "seek-no-error", "negative target refused without an error code") ;
				check_state (r, "refused seek") ; return ; }
			if (q != tg && q != tg2) { fail (r, "seek-return", "sf_seek (%ld, %s): returned %ld, model target %ld (rp=%ld wp=%ld F=%ld)", off, op_str (o), (long) q, tg, mo->rp, mo->wp, mo->F) ; return ; }
			if (q < 0) { fail (r, "seek-return", "negative position %ld returned", (long) q) ; return ; }
			if (o.b == 1) mo->rp = q ; else if (o.b == 2) mo->wp = q ; else mo->rp = mo->wp = q ;
			check_state (r, "seek") ; return ;
			}
		case 3 :	/* truncate (descriptor route only) */
		{	sf_count_t n = o.a == 0 ? (mo->F > 0 ? mo->F - 1 : 0) : mo->F / 2 ; int rc ;
			if (r->route == 0) return ;
			rc = sf_command (r->s, SFC_FILE_TRUNCATE, &n, sizeof (n)) ;
			if (rc != 0) { fail (r, "truncate-return", "SFC_FILE_TRUNCATE to %ld of %ld returned %d", (long) n, mo->F, rc) ; return ; }
			mo->F = n ; mo->rp = mo->wp = n ;
			check_state (r, "truncate") ; return ;
			}
		case 4 :
			sf_command (r->s, SFC_UPDATE_HEADER_NOW, NULL, 0) ; check_state (r, "update-header") ; return ;
		default :	/* close and re-open read/write */
		{	SF_INFO si ; int ce = sf_close (r->s) ; r->s = NULL ;
			if (ce) { fail (r, "close", "sf_close returned %d", ce) ; return ; }
			if (mo->F == 0 && (r->format & SF_FORMAT_TYPEMASK) != SF_FORMAT_RAW) r->prepop = 0 ;
			else r->prepop = 1 ;
			r->s = rd_open (r, SFM_RDWR, &si) ;
			if (r->s == NULL) { fail (r, "reopen-rdwr", "re-open in SFM_RDWR failed: %s", sf_strerror (NULL)) ; return ; }
			if (si.frames == mo->F + 1 && (mo->F & 1) && pad_frame_possible (r)) { mo->fid [mo->F++] = -1 ; vh_stat ("pad_frame_accepted", 1) ; }	/* container pads an odd byte count: one unspecified frame (same allowance as C04) */
			if (si.frames != mo->F) { fail (r, "reopen-frames", "re-open reports %ld frames, model %ld", (long) si.frames, mo->F) ; return ; }
			mo->rp = 0 ; mo->wp = mo->F ;
			check_state (r, "re-open") ; return ;
			}
		}
}

static int run_begin (RUN *r, int format, int ch, int rate, int route, int prepop)
{	SF_INFO si ; int i, c ;
	memset (r, 0, sizeof (*r)) ; r->format = format ; r->ch = ch ; r->rate = rate ; r->route = route ; r->prepop = prepop ; r->fn = vh_fname (format) ;
	if (route) { const char *d = getenv ("VERIF_SCRATCH_DIR") ; snprintf (r->path, sizeof (r->path), "%s/c08_%d_%d.dat", d ? d : ".", (int) getpid (), vh_shard) ; unlink (r->path) ; }
	if (prepop)
	{	SNDFILE *w = rd_open (r, SFM_WRITE, &si) ; short sb [5 * 8] ;
		if (w == NULL) return -1 ;
		for (i = 0 ; i < 5 ; i++) { int id = next_id++ ; r->mo.fid [i] = id ; for (c = 0 ; c < ch ; c++) sb [i * ch + c] = val_of (id, c) ; }
		if (wr_frames (w, sb, 5, ch, 0) != 5) { sf_close (w) ; return -1 ; }
		sf_close (w) ; r->mo.F = 5 ; r->mo.wp = 5 ;
		snprintf (r->hist, sizeof (r->hist), "pre:5") ;
		}
	r->s = rd_open (r, SFM_RDWR, &si) ;
	if (r->s == NULL) return -2 ;
	if (prepop && si.frames == r->mo.F + 1 && (r->mo.F & 1) && pad_frame_possible (r)) { r->mo.fid [r->mo.F++] = -1 ; r->mo.wp = r->mo.F ; vh_stat ("pad_frame_accepted", 1) ; }
	return 0 ;
}
static void run_end (RUN *r)
{	MODEL *mo = &r->mo ; SF_INFO si ; int i, c, ch = r->ch ;
	if (r->s) { int ce = sf_close (r->s) ; r->s = NULL ; if (ce && !r->bad) fail (r, "close", "final sf_close returned %d", ce) ; }
	if (!r->bad)
	{	SNDFILE *s = rd_open (r, SFM_READ, &si) ;
		if (s == NULL) { if (mo->F > 0 || (r->format & SF_FORMAT_TYPEMASK) != SF_FORMAT_RAW) fail (r, "final-reopen", "read-only re-open failed: %s", sf_strerror (NULL)) ; }
		else
		{	if (si.frames == mo->F + 1 && (mo->F & 1) && pad_frame_possible (r)) { mo->fid [mo->F++] = -1 ; vh_stat ("pad_frame_accepted", 1) ; }
			if (si.frames != mo->F) fail (r, "final-frames", "fresh open reports %ld frames, model %ld", (long) si.frames, mo->F) ;
			else
			{	short *all = calloc ((size_t) mo->F * ch + 64, 2) ; sf_count_t g = 0, gg ; while (g < mo->F && (gg = rd_frames (s, all + g * ch, mo->F - g > 16 ? 16 : (int) (mo->F - g), ch, 0)) > 0) g += gg ;
				if (g != mo->F) fail (r, "final-read", "fresh open delivers %ld of %ld frames", (long) g, mo->F) ;
				else for (i = 0 ; i < mo->F && !r->bad ; i++) if (mo->fid [i] >= 0) for (c = 0 ; c < ch ; c++) if (all [i * ch + c] != val_of (mo->fid [i], c))
				{	fail (r, "final-data", "frame %d ch %d holds %d, model %d (id %d)", i, c, all [i * ch + c], val_of (mo->fid [i], c), mo->fid [i]) ; break ; }
				if (!r->bad) vh_stat ("final_files_verified", 1) ;
				free (all) ;
				}
			sf_close (s) ;
			}
		}
	if (r->route) unlink (r->path) ; else mv_free (&r->m) ;
}

/* exhaustive: all sequences of length depth whose first op is alphabet[first] */
static void exhaust (int format, int ch, int route, int prepop, int first, int depth)
{	int idx [8], d, i ; long nseq = 0 ;
	for (d = 0 ; d < depth ; d++) idx [d] = 0 ;
	idx [0] = first ;
	for ( ; ; )
	{	RUN r ;
		if (run_begin (&r, format, ch, 8000, route, prepop) == 0)
		{	for (d = 0 ; d < depth && !r.bad && r.s ; d++) do_op (&r, alphabet [idx [d]]) ;
			run_end (&r) ; nseq++ ;
			{	uint64_t h = vh_fnv (0, idx, sizeof (int) * depth) ; vh_distinct (h ^ vh_fnv (0, &format, 4) ^ ((uint64_t) ch << 50) ^ ((uint64_t) route << 54) ^ ((uint64_t) prepop << 55) ^ ((uint64_t) depth << 56)) ; }
			if (r.bad && vh_viol_count > 40) break ;
			}
		for (i = depth - 1 ; i >= 1 ; i--) { if (++idx [i] < nalpha) break ; idx [i] = 0 ; }
		if (i < 1) break ;
		}
	vh_stat ("exhaustive_histories", nseq) ;
}

static void random_walk (int format, int ch, int route, int prepop, int len)
{	RUN r ; int st ; uint64_t h = 0 ;
	if (run_begin (&r, format, ch, 8000, route, prepop) != 0) return ;
	for (st = 0 ; st < len && !r.bad && r.s ; st++)
	{	OP o ; int x = vh_rint (100) ;
		if (x < 28) o = (OP) { 0, 1 + vh_rint (9), 0, 0 } ; else if (x < 52) o = (OP) { 1, 1 + vh_rint (9), 0, 0 } ;
		else if (x < 88) o = (OP) { 2, vh_rint (3), vh_rint (3), vh_rint (7) } ; else if (x < 92) o = (OP) { 3, vh_rint (2), 0, 0 } ;
		else if (x < 96) o = (OP) { 4, 0, 0, 0 } ; else o = (OP) { 5, 0, 0, 0 } ;
		h = vh_fnv (h, &o, sizeof (o)) ;
		do_op (&r, o) ;
		}
	run_end (&r) ;
	vh_distinct (h ^ vh_fnv (0, &format, 4) ^ ((uint64_t) ch << 50) ^ ((uint64_t) route << 54)) ;
	vh_stat ("random_walks", 1) ; vh_stat ("random_walk_steps", st) ;
}

int main (int argc, char **argv)
{	int f, c, route, pre, a, w ;
	vh_init (argc, argv, "c08_rdwr_model", "C08") ;
	vh_enum_formats () ;
	for (f = 0 ; f < vh_nfmts ; f++)
	{	int format = vh_fmts [f].format, maj = vh_fmts [f].major, sub = vh_fmts [f].sub, ok = 0, depth, fcls ;
		if (!vh_sample_granular (format)) continue ;
		if (maj == SF_FORMAT_SD2) continue ;
		/* which formats open SFM_RDWR is found by trying */
		{	MEMF m ; SF_INFO si ; SNDFILE *s ; memset (&m, 0, sizeof (m)) ; memset (&si, 0, sizeof (si)) ; si.format = format ; si.channels = vh_accepts (format, 1, 8000) ? 1 : 2 ; si.samplerate = 8000 ;
			s = sf_open_virtual (&MVIO, SFM_RDWR, &si, &m) ; if (s) { ok = 1 ; sf_close (s) ; } mv_free (&m) ; }
		if (!ok) { if (vh_shard == 0 && vh_from == 0) vh_statf (1, "no_rdwr:%s", vh_fname (format)) ; continue ; }
		/* deep exhaustive enumeration on a few representative formats, depth 2 on all */
		fcls = ((maj == SF_FORMAT_WAV && sub == SF_FORMAT_PCM_16) || (maj == SF_FORMAT_AIFF && sub == SF_FORMAT_PCM_24) || (maj == SF_FORMAT_AU && sub == SF_FORMAT_FLOAT) || (maj == SF_FORMAT_CAF && sub == SF_FORMAT_PCM_32) || (maj == SF_FORMAT_W64 && sub == SF_FORMAT_ULAW)) ;
		for (c = 1 ; c <= 2 ; c++)
		{	if (!vh_accepts (format, c, 8000)) continue ;
			for (route = 0 ; route < 2 ; route++) for (pre = 0 ; pre < 2 ; pre++)
			{	depth = fcls && c == 1 ? (vh_thorough ? 4 : 3) : 2 ;
				if (route == 1 && !fcls && !vh_thorough) depth = 1 ;
				build_alphabet (route == 1) ;
				for (a = 0 ; a < nalpha ; a++)
				{	if (!vh_case ("%s ch=%d route=%s start=%s exhaustive depth=%d first=%s", vh_fname (format), c, route ? "path" : "vio", pre ? "prepop" : "empty", depth, op_str (alphabet [a]))) continue ;
					build_palette (format, c, 8000) ; next_id = 1 ;
					vh_statf (1, "fmt:%s", vh_fname (format)) ;
					vh_sample ("%s ch=%d route=%s start=%s: all %d-op histories over {W1,W3,R1,R3,36 seeks,T,U,C} beginning with %s", vh_fname (format), c, route ? "path" : "vio", pre ? "5 frames" : "empty", depth, op_str (alphabet [a])) ;
					exhaust (format, c, route, pre, a, depth) ;
					}
				for (w = 0 ; w < (vh_thorough ? 60 : 4) ; w++)
				{	if (!vh_case ("%s ch=%d route=%s start=%s walk=%d", vh_fname (format), c, route ? "path" : "vio", pre ? "prepop" : "empty", w)) continue ;
					build_palette (format, c, 8000) ; next_id = 1 ; build_alphabet (route == 1) ;
					random_walk (format, c, route, pre, 40) ;
					}
				}
			}
		}
	return vh_finish () ;
}
