/* C09 — invalid calls fail cleanly; valid calls leave no error.
** Oracle: a table {call, argument class} -> {must fail with its documented failure value, must succeed}; for failures the
** handle state (read-only hook: positions, frame count, settings, metadata digest) and the backing-store bytes must be
** unchanged and sf_error/sf_strerror must report a non-empty message; for successes sf_error must be 0.
** All interleavings of the call alphabet to depth 3 are enumerated per (format, mode).
*/
#include <sys/wait.h>
#include "vh.h"
#include <dirent.h>
#include <sys/time.h>
/* the clock is pinned (link-time --wrap): PEAK chunks carry a time stamp and the twin comparison below compares file bytes */
static time_t fake_now = 1700000000 ;
time_t __wrap_time (time_t *t) { if (t) *t = fake_now ; return fake_now ; }
int __wrap_gettimeofday (struct timeval *tv, void *tz) { (void) tz ; if (tv) { tv->tv_sec = fake_now ; tv->tv_usec = 4242 ; } return 0 ; }

typedef struct { int expect ; uint64_t res ; char why [160] ; } REC ;
typedef struct { int format, ch, mode ; MEMF m ; SNDFILE *s ; long frames0 ; const char *fn ; char hist [260] ; REC rec [4] ; int nrec, quiet ; } H ;
static uint64_t g_data ;	/* digest of the data a read call delivered */

static uint64_t state_digest (H *h)
{	SF_VERIF_STATE st ; uint64_t d ; vh_state (h->s, &st) ;
	d = vh_fnv (0, &st.read_current, 8) ; d = vh_fnv (d, &st.write_current, 8) ; d = vh_fnv (d, &st.frames, 8) ;
	d = vh_fnv (d, &st.channels, 4) ; d = vh_fnv (d, &st.samplerate, 4) ; d = vh_fnv (d, &st.format, 4) ; d = vh_fnv (d, &st.norm_float, 4) ; d = vh_fnv (d, &st.norm_double, 4) ;
	d = vh_fnv (d, &st.add_clipping, 4) ; d = vh_fnv (d, &st.float_int_mult, 4) ; d = vh_fnv (d, &st.scale_int_float, 4) ; d = vh_fnv (d, &st.meta_digest, 8) ; d = vh_fnv (d, &st.have_written, 4) ;
	d = vh_fnv (d, &h->m.len, 8) ; d = vh_fnv (d, h->m.d, (size_t) h->m.len) ;
	return d ;
}

enum { EXP_OK, EXP_FAIL, EXP_NEUTRAL, EXP_FAIL_Q /* must fail (SF_FALSE) and change nothing; whether an error number is recorded is not documented for these, not judged */ } ;
typedef struct { const char *name ; int (*fn) (H *h, int *expect, char *why) ; } CALL ;
/* each call returns 1 when the observed return value matches 'expect', 0 otherwise (why = description) */

static int last_rc ;	/* return value of calls that return an error number */
static short sbuf [64] ; static float fbuf [64] ; static int ibuf [64] ; static double dbuf [64] ;
#define CAN_READ(h) ((h)->mode != SFM_WRITE)
#define CAN_WRITE(h) ((h)->mode != SFM_READ)

static int c_read_ok (H *h, int *e, char *w) { sf_count_t r = sf_readf_short (h->s, sbuf, 3) ; SF_VERIF_STATE st ; vh_state (h->s, &st) ; if (r > 0 && r <= 3) g_data = vh_fnv (1, sbuf, (size_t) r * h->ch * sizeof (short)) ;
	if (!CAN_READ (h)) { *e = EXP_FAIL ; snprintf (w, 100, "sf_readf_short on a write-only handle returned %ld", (long) r) ; return r == 0 ; }
	*e = EXP_OK ; snprintf (w, 100, "sf_readf_short (3) returned %ld", (long) r) ; return r >= 0 && r <= 3 ; }
static int c_read_items_ok (H *h, int *e, char *w) { sf_count_t r = sf_read_double (h->s, dbuf, 2 * h->ch) ; if (r > 0 && r <= 2 * h->ch) g_data = vh_fnv (2, dbuf, (size_t) r * sizeof (double)) ;
	if (!CAN_READ (h)) { *e = EXP_FAIL ; snprintf (w, 100, "sf_read_double on a write-only handle returned %ld", (long) r) ; return r == 0 ; }
	*e = EXP_OK ; snprintf (w, 100, "sf_read_double returned %ld", (long) r) ; return r >= 0 && r <= 2 * h->ch ; }
static int c_write_ok (H *h, int *e, char *w) { sf_count_t r ; int i ; for (i = 0 ; i < 64 ; i++) sbuf [i] = (short) (i * 100) ; r = sf_writef_short (h->s, sbuf, 2) ;
	if (!CAN_WRITE (h)) { *e = EXP_FAIL ; snprintf (w, 100, "sf_writef_short on a read-only handle returned %ld", (long) r) ; return r == 0 ; }
	*e = EXP_OK ; snprintf (w, 100, "sf_writef_short (2) returned %ld", (long) r) ; return r == 2 ; }
static int c_write_float_ok (H *h, int *e, char *w) { sf_count_t r ; int i ; for (i = 0 ; i < 64 ; i++) fbuf [i] = 0.25f ; r = sf_write_float (h->s, fbuf, h->ch) ;
	if (!CAN_WRITE (h)) { *e = EXP_FAIL ; snprintf (w, 100, "sf_write_float on a read-only handle returned %ld", (long) r) ; return r == 0 ; }
	*e = EXP_OK ; snprintf (w, 100, "sf_write_float returned %ld", (long) r) ; return r == h->ch ; }
static sf_count_t read_items_t (SNDFILE *s, int t, sf_count_t n) { switch (t) { case 0 : return sf_read_short (s, sbuf, n) ; case 1 : return sf_read_int (s, ibuf, n) ; case 2 : return sf_read_float (s, fbuf, n) ; default : return sf_read_double (s, dbuf, n) ; } }
static sf_count_t write_items_t (SNDFILE *s, int t, sf_count_t n) { switch (t) { case 0 : return sf_write_short (s, sbuf, n) ; case 1 : return sf_write_int (s, ibuf, n) ; case 2 : return sf_write_float (s, fbuf, n) ; default : return sf_write_double (s, dbuf, n) ; } }
static int read_mis_t (H *h, int *e, char *w, int t) { sf_count_t r ; if (h->ch < 2) { *e = EXP_NEUTRAL ; return 1 ; } r = read_items_t (h->s, t, h->ch + 1) ; *e = EXP_FAIL ; snprintf (w, 100, "sf_read_%s with %d items on %d channels returned %ld", vh_tname [t], h->ch + 1, h->ch, (long) r) ; return r == 0 ; }
static int write_mis_t (H *h, int *e, char *w, int t) { sf_count_t r ; if (h->ch < 2) { *e = EXP_NEUTRAL ; return 1 ; } r = write_items_t (h->s, t, h->ch + 1) ; *e = EXP_FAIL ; snprintf (w, 100, "sf_write_%s with %d items on %d channels returned %ld", vh_tname [t], h->ch + 1, h->ch, (long) r) ; return r == 0 ; }
static int c_read_misaligned (H *h, int *e, char *w) { return read_mis_t (h, e, w, 1) ; }
static int c_read_mis_short (H *h, int *e, char *w) { return read_mis_t (h, e, w, 0) ; }
static int c_read_mis_float (H *h, int *e, char *w) { return read_mis_t (h, e, w, 2) ; }
static int c_read_mis_double (H *h, int *e, char *w) { return read_mis_t (h, e, w, 3) ; }
static int c_write_misaligned (H *h, int *e, char *w) { return write_mis_t (h, e, w, 0) ; }
static int c_write_mis_int (H *h, int *e, char *w) { return write_mis_t (h, e, w, 1) ; }
static int c_write_mis_float (H *h, int *e, char *w) { return write_mis_t (h, e, w, 2) ; }
static int c_write_mis_double (H *h, int *e, char *w) { return write_mis_t (h, e, w, 3) ; }
static int c_read_negative (H *h, int *e, char *w) { sf_count_t r = sf_readf_float (h->s, fbuf, -1) ; *e = EXP_FAIL ; snprintf (w, 100, "sf_readf_float (-1) returned %ld", (long) r) ; return r == 0 ; }
static int c_write_negative (H *h, int *e, char *w) { sf_count_t r = sf_write_int (h->s, ibuf, -(sf_count_t) h->ch) ; *e = EXP_FAIL ; snprintf (w, 100, "sf_write_int (-ch) returned %ld", (long) r) ; return r == 0 ; }
static int c_read_zero (H *h, int *e, char *w) { sf_count_t r = sf_read_short (h->s, sbuf, 0) ; *e = EXP_NEUTRAL ; snprintf (w, 100, "sf_read_short (0) returned %ld", (long) r) ; return r == 0 ; }
static int c_seek_ok (H *h, int *e, char *w) { sf_count_t r = sf_seek (h->s, 0, SEEK_SET) ; SF_VERIF_STATE st ; vh_state (h->s, &st) ;
	if (!st.seekable) { *e = EXP_FAIL ; snprintf (w, 100, "sf_seek on a non-seekable handle returned %ld", (long) r) ; return r == -1 ; }
	/* block codecs may refuse to seek (C06): then the call counts as a failed one and must leave the state alone */
	if (r == -1 && !vh_sample_granular (h->format)) { *e = EXP_FAIL ; snprintf (w, 100, "sf_seek (0, SEEK_SET) refused by the codec") ; return 1 ; }
	*e = EXP_OK ; snprintf (w, 100, "sf_seek (0, SEEK_SET) returned %ld", (long) r) ; return r == 0 ; }
static int c_seek_whence (H *h, int *e, char *w) { sf_count_t r = sf_seek (h->s, 0, 77) ; *e = EXP_FAIL ; snprintf (w, 100, "sf_seek with whence 77 returned %ld", (long) r) ; return r == -1 ; }
static int c_seek_negative (H *h, int *e, char *w) { sf_count_t r = sf_seek (h->s, -5, SEEK_SET) ; *e = EXP_FAIL ; snprintf (w, 100, "sf_seek (-5, SEEK_SET) returned %ld", (long) r) ; return r == -1 ; }
/* on a write or read/write handle a seek past the end may be accepted (the docs allow extending) or refused (block codecs refuse it): if it is refused it is a
** failed out-of-range seek like any other, and must record an error and change nothing */
static int seek_beyond_w (H *h, int *e, char *w, sf_count_t off, int whence, const char *txt)
{	sf_count_t r = sf_seek (h->s, off, whence) ;
	if (r == -1) { *e = EXP_FAIL ; snprintf (w, 100, "write handle: %s returned -1", txt) ; }
	else { *e = EXP_NEUTRAL ; snprintf (w, 100, "write handle: %s returned %ld (accepted)", txt, (long) r) ; }
	return 1 ; }
static int c_seek_beyond (H *h, int *e, char *w) { sf_count_t r ; SF_VERIF_STATE st ; vh_state (h->s, &st) ; if (h->mode != SFM_READ) return seek_beyond_w (h, e, w, st.frames + 10, SEEK_SET, "sf_seek (frames+10, SEEK_SET)") ;
	r = sf_seek (h->s, st.frames + 10, SEEK_SET) ; *e = EXP_FAIL ; snprintf (w, 100, "read handle: sf_seek (frames+10) returned %ld", (long) r) ; return r == -1 ; }
static int seek_beyond_q (H *h, int *e, char *w, int q, const char *qn) { sf_count_t r ; SF_VERIF_STATE st ; vh_state (h->s, &st) ; if (h->mode != SFM_READ || !st.seekable) { *e = EXP_NEUTRAL ; return 1 ; }
	r = sf_seek (h->s, st.frames + 10, SEEK_SET | q) ; *e = EXP_FAIL ; snprintf (w, 100, "read handle: sf_seek (frames+10, SEEK_SET|%s) returned %ld", qn, (long) r) ; return r == -1 ; }
static int c_seek_beyond_r (H *h, int *e, char *w) { return seek_beyond_q (h, e, w, SFM_READ, "SFM_READ") ; }
static int c_seek_beyond_rw (H *h, int *e, char *w) { return seek_beyond_q (h, e, w, SFM_RDWR, "SFM_RDWR") ; }
static int c_seek_end_beyond (H *h, int *e, char *w) { sf_count_t r ; SF_VERIF_STATE st ; vh_state (h->s, &st) ; if (h->mode != SFM_READ && st.seekable) return seek_beyond_w (h, e, w, 3, SEEK_END, "sf_seek (+3, SEEK_END)") ; if (h->mode != SFM_READ || !st.seekable) { *e = EXP_NEUTRAL ; return 1 ; }
	r = sf_seek (h->s, 3, SEEK_END) ; *e = EXP_FAIL ; snprintf (w, 100, "read handle: sf_seek (+3, SEEK_END) returned %ld", (long) r) ; return r == -1 ; }
static int c_seek_cur_beyond (H *h, int *e, char *w) { sf_count_t r ; SF_VERIF_STATE st ; vh_state (h->s, &st) ; if (h->mode != SFM_READ || !st.seekable) { *e = EXP_NEUTRAL ; return 1 ; }
	r = sf_seek (h->s, st.frames + 2, SEEK_CUR | SFM_READ) ; *e = EXP_FAIL ; snprintf (w, 100, "read handle: sf_seek (frames+2, SEEK_CUR|SFM_READ) returned %ld", (long) r) ; return r == -1 ; }
static int c_seek_wrongmode (H *h, int *e, char *w) { sf_count_t r ; if (h->mode == SFM_RDWR) { *e = EXP_NEUTRAL ; return 1 ; }
	r = sf_seek (h->s, 0, SEEK_SET | (h->mode == SFM_READ ? SFM_WRITE : SFM_READ)) ; *e = EXP_FAIL ; snprintf (w, 100, "sf_seek with the other mode's qualifier returned %ld", (long) r) ; return r == -1 ; }
static int c_cmd_unknown (H *h, int *e, char *w) { int x = 0, r = sf_command (h->s, 0x7777, &x, sizeof (x)) ; last_rc = r ; *e = EXP_FAIL ; snprintf (w, 100, "sf_command (0x7777) returned %d", r) ; return r != 0 ; }
static int c_cmd_null (H *h, int *e, char *w) { int r = sf_command (h->s, SFC_GET_CURRENT_SF_INFO, NULL, sizeof (SF_INFO)) ; last_rc = r ; *e = EXP_FAIL ; snprintf (w, 100, "SFC_GET_CURRENT_SF_INFO with NULL data returned %d", r) ; return r != 0 ; }
static int c_cmd_ok (H *h, int *e, char *w) { SF_INFO si ; int r = sf_command (h->s, SFC_GET_CURRENT_SF_INFO, &si, sizeof (si)) ; *e = EXP_OK ; snprintf (w, 100, "SFC_GET_CURRENT_SF_INFO returned %d", r) ; return r == 0 && si.channels == h->ch ; }
static int c_setstr_bad (H *h, int *e, char *w) { int r = sf_set_string (h->s, 9999, "x") ; last_rc = r ; *e = EXP_FAIL ; snprintf (w, 100, "sf_set_string with type 9999 returned %d", r) ; return r != 0 ; }
static int c_setstr_null (H *h, int *e, char *w) { int r = sf_set_string (h->s, SF_STR_TITLE, NULL) ; last_rc = r ; *e = EXP_FAIL ; snprintf (w, 100, "sf_set_string with NULL string returned %d", r) ; return r != 0 ; }
static int c_setstr_readonly (H *h, int *e, char *w) { int r ; if (h->mode != SFM_READ) { *e = EXP_NEUTRAL ; return 1 ; } r = sf_set_string (h->s, SF_STR_TITLE, "t") ; last_rc = r ; *e = EXP_FAIL ; snprintf (w, 100, "sf_set_string on a read-only handle returned %d", r) ; return r != 0 ; }
static int c_setchunk_readonly (H *h, int *e, char *w) { SF_CHUNK_INFO ci ; int r ; if (h->mode != SFM_READ) { *e = EXP_NEUTRAL ; return 1 ; } memset (&ci, 0, sizeof (ci)) ; snprintf (ci.id, 8, "abcd") ; ci.id_size = 4 ; ci.datalen = 4 ; ci.data = "1234" ;
	r = sf_set_chunk (h->s, &ci) ; last_rc = r ; *e = EXP_FAIL ; snprintf (w, 100, "sf_set_chunk on a read-only handle returned %d", r) ; return r != 0 ; }
static int c_setchunk_null (H *h, int *e, char *w) { int r = sf_set_chunk (h->s, NULL) ; last_rc = r ; *e = EXP_FAIL ; snprintf (w, 100, "sf_set_chunk (NULL info) returned %d", r) ; return r != 0 ; }
static int c_getstr (H *h, int *e, char *w) { const char *p = sf_get_string (h->s, SF_STR_GENRE) ; *e = EXP_NEUTRAL ; snprintf (w, 100, "sf_get_string") ; (void) p ; return 1 ; }
static int c_truncate_bad (H *h, int *e, char *w) { sf_count_t n = -3 ; int r ; if (h->mode == SFM_READ) { *e = EXP_NEUTRAL ; return 1 ; } r = sf_command (h->s, SFC_FILE_TRUNCATE, &n, sizeof (n)) ; *e = EXP_FAIL ; snprintf (w, 100, "SFC_FILE_TRUNCATE (-3) returned %d", r) ; return r != 0 ; }

/* metadata set-commands with invalid arguments: the documented failure value is SF_FALSE */
static int is_riff (H *h) { int m = h->format & SF_FORMAT_TYPEMASK ; return m == SF_FORMAT_WAV || m == SF_FORMAT_WAVEX || m == SF_FORMAT_RF64 ; }
static int c_bext_small (H *h, int *e, char *w) { static SF_BROADCAST_INFO bi ; int r ; memset (&bi, 0, sizeof (bi)) ; snprintf (bi.description, sizeof (bi.description), "d") ; r = sf_command (h->s, SFC_SET_BROADCAST_INFO, &bi, 10) ; *e = EXP_FAIL_Q ; snprintf (w, 100, "SFC_SET_BROADCAST_INFO with datasize 10 returned %d", r) ; return r == SF_FALSE ; }
static int c_bext_hist (H *h, int *e, char *w) { static SF_BROADCAST_INFO bi ; int r ; memset (&bi, 0, sizeof (bi)) ; bi.coding_history_size = 100000 ; r = sf_command (h->s, SFC_SET_BROADCAST_INFO, &bi, sizeof (bi)) ; *e = EXP_FAIL_Q ; snprintf (w, 100, "SFC_SET_BROADCAST_INFO with coding_history_size 100000 in a %d byte struct returned %d", (int) sizeof (bi), r) ; return r == SF_FALSE ; }
static int c_cart_small (H *h, int *e, char *w) { static SF_CART_INFO ci ; int r ; memset (&ci, 0, sizeof (ci)) ; r = sf_command (h->s, SFC_SET_CART_INFO, &ci, 10) ; *e = EXP_FAIL_Q ; snprintf (w, 100, "SFC_SET_CART_INFO with datasize 10 returned %d", r) ; return r == SF_FALSE ; }
static int c_inst_size (H *h, int *e, char *w) { static SF_INSTRUMENT in ; int r ; memset (&in, 0, sizeof (in)) ; r = sf_command (h->s, SFC_SET_INSTRUMENT, &in, sizeof (in) - 1) ; *e = EXP_FAIL_Q ; snprintf (w, 100, "SFC_SET_INSTRUMENT with sizeof-1 returned %d", r) ; return r == SF_FALSE ; }
static int c_cue_size (H *h, int *e, char *w) { static SF_CUES cu ; int r ; memset (&cu, 0, sizeof (cu)) ; cu.cue_count = 2 ; r = sf_command (h->s, SFC_SET_CUE, &cu, 2) ; *e = EXP_FAIL_Q ; snprintf (w, 100, "SFC_SET_CUE with datasize 2 returned %d", r) ; return r == SF_FALSE ; }
static int c_chmap_size (H *h, int *e, char *w) { int cm [8] = { SF_CHANNEL_MAP_LEFT, SF_CHANNEL_MAP_RIGHT, SF_CHANNEL_MAP_CENTER, SF_CHANNEL_MAP_LFE, 1, 1, 1, 1 }, r = sf_command (h->s, SFC_SET_CHANNEL_MAP_INFO, cm, (int) sizeof (int) * (h->ch + 1)) ; *e = EXP_FAIL_Q ; snprintf (w, 100, "SFC_SET_CHANNEL_MAP_INFO with ch+1 entries returned %d", r) ; return r == SF_FALSE ; }
static int c_chmap_value (H *h, int *e, char *w) { int cm [8] = { SF_CHANNEL_MAP_LEFT, SF_CHANNEL_MAP_MAX + 5, SF_CHANNEL_MAP_MAX + 5, 1, 1, 1, 1, 1 }, r ; if (h->ch < 2) { *e = EXP_NEUTRAL ; return 1 ; } r = sf_command (h->s, SFC_SET_CHANNEL_MAP_INFO, cm, (int) sizeof (int) * h->ch) ; *e = EXP_FAIL_Q ; snprintf (w, 100, "SFC_SET_CHANNEL_MAP_INFO with an out-of-range position returned %d", r) ; return r == SF_FALSE ; }

/* valid metadata set-commands: accepted before the first audio data, refused (SF_FALSE, nothing changes) afterwards */
static int c_inst_set (H *h, int *e, char *w) { static SF_INSTRUMENT in ; SF_VERIF_STATE st ; int r ; static int n ; if (h->mode == SFM_READ) { *e = EXP_NEUTRAL ; return 1 ; } vh_state (h->s, &st) ;
	memset (&in, 0, sizeof (in)) ; in.basenote = 47 ; (void) n ; in.key_hi = in.velocity_hi = 127 ; in.loop_count = 1 ; in.loops [0].mode = SF_LOOP_FORWARD ; in.loops [0].end = 5 ;
	r = sf_command (h->s, SFC_SET_INSTRUMENT, &in, sizeof (in)) ;
	if (st.have_written || st.frames > 0) { *e = EXP_FAIL_Q ; snprintf (w, 100, "SFC_SET_INSTRUMENT after audio data returned %d", r) ; return r == SF_FALSE ; }
	*e = EXP_OK ; snprintf (w, 100, "SFC_SET_INSTRUMENT before any audio returned %d", r) ; return r == SF_TRUE ; }
static int c_cue_set (H *h, int *e, char *w) { static SF_CUES cu ; SF_VERIF_STATE st ; int r ; static int n ; if (h->mode == SFM_READ) { *e = EXP_NEUTRAL ; return 1 ; } vh_state (h->s, &st) ;
	memset (&cu, 0, sizeof (cu)) ; cu.cue_count = 2 ; cu.cue_points [0].indx = 1 ; cu.cue_points [0].sample_offset = 3 ; (void) n ; cu.cue_points [1].indx = 2 ; cu.cue_points [1].sample_offset = 20 ;
	r = sf_command (h->s, SFC_SET_CUE, &cu, sizeof (cu)) ;
	if (st.have_written || st.frames > 0) { *e = EXP_FAIL_Q ; snprintf (w, 100, "SFC_SET_CUE after audio data returned %d", r) ; return r == SF_FALSE ; }
	*e = EXP_OK ; snprintf (w, 100, "SFC_SET_CUE before any audio returned %d", r) ; return r == SF_TRUE ; }
/* raw I/O: the byte count must be a whole number of frames (channels x bytes per sample; channels for the block codecs) */
static int raw_unit (H *h) { int b = vh_sample_granular (h->format) ? vh_bits (h->format) / 8 : 0 ; return h->ch * (b > 0 ? b : 1) ; }
static int c_write_raw_mis (H *h, int *e, char *w) { static unsigned char rb [256] ; sf_count_t r ; int u = raw_unit (h) ; if (u < 2) { *e = EXP_NEUTRAL ; return 1 ; } r = sf_write_raw (h->s, rb, u + 1) ; *e = EXP_FAIL ; snprintf (w, 100, "sf_write_raw with %d bytes (frame = %d bytes) returned %ld", u + 1, u, (long) r) ; return r == 0 ; }
static int c_read_raw_neg (H *h, int *e, char *w) { static unsigned char rb [256] ; sf_count_t r ; int u = raw_unit (h) ; if (u < 1) { *e = EXP_NEUTRAL ; return 1 ; } r = sf_read_raw (h->s, rb, -u) ; *e = EXP_FAIL ; snprintf (w, 100, "sf_read_raw with -%d bytes returned %ld", u, (long) r) ; return r == 0 ; }
static int c_write_raw_neg (H *h, int *e, char *w) { static unsigned char rb [256] ; sf_count_t r ; int u = raw_unit (h) ; if (u < 1) { *e = EXP_NEUTRAL ; return 1 ; } r = sf_write_raw (h->s, rb, -u) ; *e = EXP_FAIL ; snprintf (w, 100, "sf_write_raw with -%d bytes returned %ld", u, (long) r) ; return r == 0 ; }
static int c_read_raw_mis (H *h, int *e, char *w) { static unsigned char rb [256] ; sf_count_t r ; int u = raw_unit (h) ; if (u < 2) { *e = EXP_NEUTRAL ; return 1 ; } r = sf_read_raw (h->s, rb, u + 1) ; *e = EXP_FAIL ; snprintf (w, 100, "sf_read_raw with %d bytes (frame = %d bytes) returned %ld", u + 1, u, (long) r) ; return r == 0 ; }

/* strings: a valid title (accepted on write handles), and the empty title, which only SF_STR_SOFTWARE may be */
static int c_setstr_ok (H *h, int *e, char *w) { int r ; if (h->mode == SFM_READ) { *e = EXP_NEUTRAL ; return 1 ; } r = sf_set_string (h->s, SF_STR_TITLE, "a title") ; last_rc = r ; snprintf (w, 100, "sf_set_string (TITLE, \"a title\") returned %d", r) ; *e = EXP_NEUTRAL ; return 1 ; }
static int c_setstr_empty (H *h, int *e, char *w) { int r ; if (h->mode == SFM_READ) { *e = EXP_NEUTRAL ; return 1 ; } r = sf_set_string (h->s, SF_STR_TITLE, "") ; last_rc = r ; *e = EXP_FAIL ; snprintf (w, 100, "sf_set_string (TITLE, \"\") returned %d", r) ; return r != 0 ; }

static CALL calls [] = {
	{ "readf_short(3)", c_read_ok }, { "read_double(2ch)", c_read_items_ok }, { "writef_short(2)", c_write_ok }, { "write_float(ch)", c_write_float_ok },
	{ "read_int(ch+1)", c_read_misaligned }, { "write_short(ch+1)", c_write_misaligned }, { "read_short(ch+1)", c_read_mis_short }, { "read_float(ch+1)", c_read_mis_float }, { "read_double(ch+1)", c_read_mis_double },
	{ "write_int(ch+1)", c_write_mis_int }, { "write_float(ch+1)", c_write_mis_float }, { "write_double(ch+1)", c_write_mis_double }, { "readf_float(-1)", c_read_negative }, { "write_int(-ch)", c_write_negative },
	{ "read_short(0)", c_read_zero }, { "seek(0,SET)", c_seek_ok }, { "seek(whence=77)", c_seek_whence }, { "seek(-5,SET)", c_seek_negative }, { "seek(F+10,SET)", c_seek_beyond }, { "seek(F+10,SET|R)", c_seek_beyond_r }, { "seek(F+10,SET|RW)", c_seek_beyond_rw }, { "seek(+3,END)", c_seek_end_beyond }, { "seek(F+2,CUR|R)", c_seek_cur_beyond },
	{ "seek(other-mode)", c_seek_wrongmode }, { "command(0x7777)", c_cmd_unknown }, { "GET_CURRENT_SF_INFO(NULL)", c_cmd_null }, { "GET_CURRENT_SF_INFO", c_cmd_ok },
	{ "set_string(type 9999)", c_setstr_bad }, { "set_string(NULL)", c_setstr_null }, { "set_string(read-only)", c_setstr_readonly }, { "set_chunk(read-only)", c_setchunk_readonly },
	{ "set_chunk(NULL)", c_setchunk_null }, { "get_string", c_getstr }, { "TRUNCATE(-3)", c_truncate_bad },
	{ "SET_BROADCAST_INFO(size 10)", c_bext_small }, { "SET_BROADCAST_INFO(history size)", c_bext_hist }, { "SET_CART_INFO(size 10)", c_cart_small }, { "SET_INSTRUMENT(size-1)", c_inst_size },
	{ "SET_CUE(size 2)", c_cue_size }, { "set_string(TITLE)", c_setstr_ok }, { "set_string(TITLE,empty)", c_setstr_empty }, { "SET_INSTRUMENT(valid)", c_inst_set }, { "SET_CUE(valid)", c_cue_set }, { "write_raw(frame+1 bytes)", c_write_raw_mis }, { "read_raw(frame+1 bytes)", c_read_raw_mis }, { "read_raw(-frame bytes)", c_read_raw_neg }, { "write_raw(-frame bytes)", c_write_raw_neg }, { "SET_CHANNEL_MAP_INFO(ch+1)", c_chmap_size }, { "SET_CHANNEL_MAP_INFO(bad position)", c_chmap_value },
} ;
#define NCALLS ((int) (sizeof (calls) / sizeof (calls [0])))

static int h_open (H *h, int format, int ch, int mode, const MEMF *base)
{	SF_INFO si ; memset (h, 0, sizeof (*h)) ; h->format = format ; h->ch = ch ; h->mode = mode ; h->fn = vh_fname (format) ;
	memset (&si, 0, sizeof (si)) ;
	if (mode == SFM_WRITE) { si.format = format ; si.channels = ch ; si.samplerate = 8000 ; }
	else { mv_copy (&h->m, base) ; if ((format & SF_FORMAT_TYPEMASK) == SF_FORMAT_RAW) { si.format = format ; si.channels = ch ; si.samplerate = 8000 ; } }
	h->s = sf_open_virtual (&MVIO, mode, &si, &h->m) ;
	return h->s ? 0 : -1 ;
}

static void do_call (H *h, int ci)
{	int expect = EXP_NEUTRAL, ok, err ; char why [160] = "" ; uint64_t d0, d1 ; const char *msg ;
	{	size_t l = strlen (h->hist) ; if (l < sizeof (h->hist) - 32) snprintf (h->hist + l, sizeof (h->hist) - l, "%s%s", l ? " ; " : "", calls [ci].name) ; }
	d0 = state_digest (h) ; last_rc = 0 ; g_data = 0 ;
	ok = calls [ci].fn (h, &expect, why) ;
	err = sf_error (h->s) ;
	d1 = state_digest (h) ;
	if (h->nrec < 4) { REC *r = &h->rec [h->nrec++] ; r->expect = expect ; r->res = vh_fnv (g_data, why, strlen (why)) ; snprintf (r->why, sizeof (r->why), "%s", why) ; }
	if (h->quiet) return ;
	vh_stat (expect == EXP_FAIL || expect == EXP_FAIL_Q ? "invalid_calls_checked" : expect == EXP_OK ? "valid_calls_checked" : "neutral_calls", 1) ;
	if (!ok)
	{	/* one history class is told apart, so that it can be listed without hiding any other failed write: the file position was moved past the data offset by an
		** accepted seek past the end, then metadata (a string, an instrument, cue points) changed the header size, and the header writer gives up with SFE_INTERNAL (WAV and RF64 also log "Oooops") */
		const char *cause = "" ;
		if (expect == EXP_OK && err == 29 && h->mode == SFM_WRITE && (strstr (h->hist, "seek(F+10,SET)") || strstr (h->hist, "seek(+3,END)")) && (strstr (h->hist, "set_string(TITLE)") || strstr (h->hist, "SET_INSTRUMENT(valid)") || strstr (h->hist, "SET_CUE(valid)")))
			cause = "|internal-error-after-seek-past-end-and-header-growth" ;
		vh_viol (vh_key ("C09|return-value|%s|%s|%s%s", calls [ci].name, h->fn, h->mode == SFM_READ ? "r" : h->mode == SFM_WRITE ? "w" : "rw", cause), "history [%s]: %s", h->hist, why) ;
		}
	if (expect == EXP_FAIL)
	{	/* sf_command / sf_set_string / sf_set_chunk return the error number itself (docs: "can be converted with sf_error_number"): either channel counts */
		if (err == 0 && last_rc > 0 && last_rc < 600) err = last_rc ;
		if (err == 0) vh_viol (vh_key ("C09|no-error-recorded|%s|%s", calls [ci].name, h->fn), "history [%s]: %s, but neither sf_error nor the return value carries an error number", h->hist, why) ;
		else
		{	msg = sf_error (h->s) ? sf_strerror (h->s) : sf_error_number (err) ;
			if (msg == NULL || !*msg || strstr (msg, "No error defined")) vh_viol (vh_key ("C09|empty-error-text|%s", calls [ci].name), "error %d has text '%s'", err, msg ? msg : "(null)") ;
			msg = sf_error_number (err) ;
			if (msg == NULL || !*msg || strstr (msg, "No error defined")) vh_viol (vh_key ("C09|empty-error-number-text|%d", err), "sf_error_number (%d) = '%s'", err, msg ? msg : "(null)") ;
			}
		if (d0 != d1) vh_viol (vh_key ("C09|state-changed-by-failed-call|%s|%s|%s", calls [ci].name, h->fn, h->mode == SFM_READ ? "r" : h->mode == SFM_WRITE ? "w" : "rw"), "history [%s]: %s; positions/frames/settings/metadata/file bytes changed", h->hist, why) ;
		}
	else if (expect == EXP_FAIL_Q)
	{	if (d0 != d1) vh_viol (vh_key ("C09|state-changed-by-failed-call|%s|%s|%s", calls [ci].name, h->fn, h->mode == SFM_READ ? "r" : h->mode == SFM_WRITE ? "w" : "rw"), "history [%s]: %s; positions/frames/settings/metadata/file bytes changed", h->hist, why) ; }
	else if (expect == EXP_OK && ok && err != 0)		/* a valid call whose return value already says it failed is reported above, once */
		vh_viol (vh_key ("C09|error-after-success|%s|%s", calls [ci].name, h->fn), "history [%s]: %s, yet sf_error = %d (%s)", h->hist, why, err, sf_strerror (h->s)) ;
	vh_check_inv (h->s, calls [ci].name) ;
}


/* Twin oracle: "an invalid call has no effect" is decided behaviourally.  The same history WITHOUT its failed calls is run on a second,
** fresh handle; every remaining call must return the same value and data, and after sf_close both backing stores must hold the same bytes. */
static void twin_check (H *h, int format, int ch, int mode, const MEMF *base, int a, int b, int c, int d)
{	H t ; int seq [4] = { a, b, c, d }, i, nfail = 0, firstfail = -1, j = 0 ; const char *ms = mode == SFM_READ ? "r" : mode == SFM_WRITE ? "w" : "rw" ;
	for (i = 0 ; i < h->nrec ; i++) if (h->rec [i].expect == EXP_FAIL || h->rec [i].expect == EXP_FAIL_Q) { nfail++ ; if (firstfail < 0) firstfail = i ; }
	if (!nfail) return ;
	if (h_open (&t, format, ch, mode, base) != 0) return ;
	t.quiet = 1 ;
	for (i = 0 ; i < h->nrec ; i++)
	{	if (h->rec [i].expect == EXP_FAIL || h->rec [i].expect == EXP_FAIL_Q) continue ;
		do_call (&t, seq [i]) ;
		if (t.rec [j].expect == EXP_FAIL || t.rec [j].expect == EXP_FAIL_Q || t.rec [j].res != h->rec [i].res)
		{	vh_viol (vh_key ("C09|failed-call-has-effect|%s|%s|%s", calls [seq [firstfail]].name, h->fn, ms), "history [%s]: call %d (%s) gave [%s]; in the same history without the failed call(s) it gives [%s]%s", h->hist, i + 1, calls [seq [i]].name, h->rec [i].why, t.rec [j].why, strcmp (h->rec [i].why, t.rec [j].why) ? "" : " (same return value, different data)") ;
			sf_close (t.s) ; mv_free (&t.m) ; return ; }
		j++ ; }
	sf_close (h->s) ; h->s = NULL ; sf_close (t.s) ;
	if (h->m.len != t.m.len || (h->m.len > 0 && memcmp (h->m.d, t.m.d, (size_t) h->m.len)))
		vh_viol (vh_key ("C09|failed-call-has-effect|%s|%s|%s|file-bytes", calls [seq [firstfail]].name, h->fn, ms), "history [%s]: after sf_close the file (%ld bytes) differs from the file of the same history without the failed call(s) (%ld bytes)", h->hist, (long) h->m.len, (long) t.m.len) ;
	else vh_stat ("twin_histories_equal", 1) ;
	mv_free (&t.m) ;
}

static int count_fds (void) { DIR *d = opendir ("/proc/self/fd") ; int n = 0 ; if (!d) return -1 ; while (readdir (d)) n++ ; closedir (d) ; return n ; }

#define N_OPEN_FAIL 16
static const char *open_what [N_OPEN_FAIL] = { "nonexistent path", "bad mode", "NULL SF_INFO", "invalid format for write", "virtual I/O without callbacks", "garbage file", "empty file for read", "directory", "zero channels write", "fd -1", "virtual I/O SFM_RDWR on a valid file without a write callback", "virtual I/O SFM_RDWR on a valid file without a read callback",
	"path longer than any file name, for read", "path longer than any file name, for write", "write with a subtype and no container type", "raw read with zero channels" } ;	/* missing seek / tell callbacks are not judged: sf_open_virtual only demands them when the caller sets SF_INFO.seekable, and the docs say nothing else */
static SNDFILE *failing_open (int k, const char *path, const char *sd, MEMF *m, SF_INFO *si)
{	SNDFILE *s = NULL ; static SF_VIRTUAL_IO nv ; int fd = -1 ;
	switch (k)
	{	case 0 : s = sf_open ("/nonexistent/dir/file.wav", SFM_READ, si) ; break ;
		case 1 : s = sf_open (path, 0x999, si) ; break ;
		case 2 : s = sf_open (path, SFM_READ, NULL) ; break ;
		case 3 : si->format = SF_FORMAT_WAV | SF_FORMAT_DWVW_12 ; si->channels = 1 ; si->samplerate = 8000 ; s = sf_open (path, SFM_WRITE, si) ; unlink (path) ; break ;
		case 4 : memset (&nv, 0, sizeof (nv)) ; s = sf_open_virtual (&nv, SFM_READ, si, m) ; break ;
		case 5 : { FILE *fp = fopen (path, "w") ; fputs ("this is certainly not a sound file, just some text that is long enough for detection", fp) ; fclose (fp) ; s = sf_open (path, SFM_READ, si) ; unlink (path) ; } break ;
		case 6 : { FILE *fp = fopen (path, "w") ; fclose (fp) ; s = sf_open (path, SFM_READ, si) ; unlink (path) ; } break ;
		case 7 : s = sf_open (sd ? sd : "/tmp", SFM_READ, si) ; break ;
		case 8 : si->format = SF_FORMAT_WAV | SF_FORMAT_PCM_16 ; si->channels = 0 ; si->samplerate = 8000 ; s = sf_open (path, SFM_WRITE, si) ; unlink (path) ; break ;
		case 9 : s = sf_open_fd (fd, SFM_READ, si, 0) ; break ;
		case 12 : case 13 :
		{	static char lp [5000] ; size_t n = (size_t) snprintf (lp, sizeof (lp), "%s/", sd ? sd : ".") ;
			while (n < 4000) { memset (lp + n, 'a' + (int) (n % 23), 199) ; n += 199 ; lp [n++] = (n > 3900) ? 'x' : '/' ; }		/* components stay under NAME_MAX: the whole is over every path limit */
			lp [n] = 0 ;
			if (k == 13) { si->format = SF_FORMAT_WAV | SF_FORMAT_PCM_16 ; si->channels = 1 ; si->samplerate = 8000 ; }
			s = sf_open (lp, k == 12 ? SFM_READ : SFM_WRITE, si) ; } break ;
		case 14 : si->format = SF_FORMAT_PCM_16 ; si->channels = 1 ; si->samplerate = 8000 ; s = sf_open (path, SFM_WRITE, si) ; unlink (path) ; break ;
		case 15 : { FILE *fp = fopen (path, "w") ; fputs ("0123456789abcdef0123456789abcdef", fp) ; fclose (fp) ; si->format = SF_FORMAT_RAW | SF_FORMAT_PCM_16 ; si->channels = 0 ; si->samplerate = 8000 ; s = sf_open (path, SFM_READ, si) ; unlink (path) ; } break ;
		default :
		{	static MEMF img ; SF_VIRTUAL_IO v = MVIO ; int md = SFM_RDWR ;
			if (img.d == NULL) vh_make_file (&img, SF_FORMAT_WAV | SF_FORMAT_PCM_16, 2, 8000, 100, 1) ;
			img.pos = 0 ;
			if (k == 10) v.write = NULL ; else v.read = NULL ;
			s = sf_open_virtual (&v, md, si, &img) ; } break ;
		}
	return s ;
}

static void open_failures (void)
{	SF_INFO si ; SNDFILE *s ; int f0, f1 ; size_t a0, a1 ; char path [300] ; const char *sd = getenv ("VERIF_SCRATCH_DIR") ; MEMF m ; int k ;
	const char **what = open_what ;
	setvbuf (stdout, NULL, _IOFBF, 1 << 14) ;
	(void) count_fds () ;
	for (k = 0 ; k < N_OPEN_FAIL ; k++)
	{	int pass ;
		for (pass = 0 ; pass < 2 ; pass++)		/* first pass warms up lazily allocated libc state */
		{	memset (&si, 0, sizeof (si)) ; memset (&m, 0, sizeof (m)) ;
			snprintf (path, sizeof (path), "%s/c09_open_%d_%d", sd ? sd : ".", (int) getpid (), k) ;
			f0 = count_fds () ; a0 = vh_heap_bytes () ;
			s = failing_open (k, path, sd, &m, &si) ;
			a1 = vh_heap_bytes () ; f1 = count_fds () ;
			if (pass == 0) { if (s) sf_close (s) ; continue ; }
			vh_stat ("failed_opens_checked", 1) ;
			if (s != NULL) { vh_viol (vh_key ("C09|open-should-fail|%s", what [k]), "sf_open* returned a handle") ; sf_close (s) ; continue ; }
			if (sf_error (NULL) == 0) vh_viol (vh_key ("C09|open-fail-no-error|%s", what [k]), "NULL returned but sf_error (NULL) is 0") ;
			if (!sf_strerror (NULL) || !*sf_strerror (NULL)) vh_viol (vh_key ("C09|open-fail-empty-text|%s", what [k]), "empty sf_strerror (NULL)") ;
			if (f1 != f0) vh_viol (vh_key ("C09|open-fail-descriptor-leak|%s", what [k]), "open descriptors %d -> %d", f0, f1) ;
			if (a1 > a0) vh_viol (vh_key ("C09|open-fail-heap-leak|%s", what [k]), "live heap %zu -> %zu bytes", a0, a1) ;
			}
		/* the global error outlives a failed open, so a later failure that sets nothing would hide behind the earlier one: the same open once more as the
		** first library call of a fresh process, where the global error can only be what this open left */
		{	pid_t pid ; int st = 0 ;
			fflush (stdout) ; fflush (stderr) ;
			snprintf (path, sizeof (path), "%s/c09_open_%d_%d_c", sd ? sd : ".", (int) getpid (), k) ;
			pid = fork () ;
			if (pid == 0)
			{	int rc = 0 ; memset (&si, 0, sizeof (si)) ; memset (&m, 0, sizeof (m)) ;
				s = failing_open (k, path, sd, &m, &si) ;
				if (s != NULL) rc = 5 ; else if (sf_error (NULL) == 0) rc = 3 ; else if (!sf_strerror (NULL) || !*sf_strerror (NULL) || !strcmp (sf_strerror (NULL), sf_error_number (0))) rc = 4 ;
				_exit (rc) ; }
			if (pid > 0 && waitpid (pid, &st, 0) == pid && WIFEXITED (st))
			{	vh_stat ("failed_opens_checked_in_a_fresh_process", 1) ;
				if (WEXITSTATUS (st) == 3) vh_viol (vh_key ("C09|open-fail-no-error|%s|fresh-process", what [k]), "NULL returned and sf_error (NULL) is 0 when this is the process's first library call") ;
				else if (WEXITSTATUS (st) == 4) vh_viol (vh_key ("C09|open-fail-empty-text|%s|fresh-process", what [k]), "sf_strerror (NULL) is empty or the no-error text when this is the process's first library call") ;
				else if (WEXITSTATUS (st) != 0 && WEXITSTATUS (st) != 5) vh_note ("fresh-process open %d: child exit status %d (not judged)", k, WEXITSTATUS (st)) ;
				}
			else vh_note ("fresh-process open %d: no child verdict (not judged)", k) ;
			}
		}
	/* NULL handle */
	{	sf_count_t r ;
		r = sf_read_short (NULL, sbuf, 4) ; if (r != 0 || sf_error (NULL) == 0) vh_viol ("C09|null-handle|sf_read_short", "returned %ld, sf_error (NULL) = %d", (long) r, sf_error (NULL)) ;
		r = sf_write_float (NULL, fbuf, 4) ; if (r != 0 || sf_error (NULL) == 0) vh_viol ("C09|null-handle|sf_write_float", "returned %ld, sf_error (NULL) = %d", (long) r, sf_error (NULL)) ;
		/* what sf_seek / sf_close / sf_set_string do with a NULL handle is not documented: observed, not judged */
		r = sf_seek (NULL, 0, SEEK_SET) ; vh_note ("sf_seek (NULL) returns %ld, sf_close (NULL) returns %d, sf_set_string (NULL) returns %d (undocumented, not judged)", (long) r, sf_close (NULL), sf_set_string (NULL, SF_STR_TITLE, "x")) ;
		if (sf_get_string (NULL, SF_STR_TITLE) != NULL) vh_viol ("C09|null-handle|sf_get_string", "returned non-NULL") ;
		if (sf_get_chunk_iterator (NULL, NULL) != NULL) vh_viol ("C09|null-handle|sf_get_chunk_iterator", "returned non-NULL") ;
		vh_stat ("null_handle_calls_checked", 4) ;
		}
	/* message table: every defined error number has a real text, and the defined range is contiguous */
	{	int e, last = -1, holes = 0 ; static char seen [600] ;
		for (e = 0 ; e < 600 ; e++) { const char *t = sf_error_number (e) ; seen [e] = (t && *t && !strstr (t, "No error defined")) ; if (seen [e]) last = e ; }
		for (e = 0 ; e <= last ; e++) if (!seen [e]) { holes++ ; vh_viol (vh_key ("C09|error-table-hole|%d", e), "sf_error_number (%d) has no text but %d has", e, last) ; }
		vh_stat ("error_numbers_checked", last + 1) ; (void) holes ;
		}
}

int main (int argc, char **argv)
{	static const int fmts [][2] = { { SF_FORMAT_WAV | SF_FORMAT_PCM_16, 2 }, { SF_FORMAT_WAV | SF_FORMAT_FLOAT, 2 }, { SF_FORMAT_AIFF | SF_FORMAT_PCM_24, 2 }, { SF_FORMAT_AU | SF_FORMAT_ULAW, 2 },
		{ SF_FORMAT_CAF | SF_FORMAT_PCM_32, 3 }, { SF_FORMAT_W64 | SF_FORMAT_DOUBLE, 2 }, { SF_FORMAT_RAW | SF_FORMAT_PCM_16, 2 }, { SF_FORMAT_WAV | SF_FORMAT_IMA_ADPCM, 2 },
		{ SF_FORMAT_AIFF | SF_FORMAT_DWVW_16, 1 }, { SF_FORMAT_WAV | SF_FORMAT_GSM610, 1 }, { SF_FORMAT_RF64 | SF_FORMAT_PCM_16, 2 }, { SF_FORMAT_CAF | SF_FORMAT_ALAC_16, 2 },
		/* codecs that pack frames into blocks and have their own seek functions */
		{ SF_FORMAT_PAF | SF_FORMAT_PCM_24, 2 }, { SF_FORMAT_SDS | SF_FORMAT_PCM_16, 1 }, { SF_FORMAT_XI | SF_FORMAT_DPCM_16, 1 }, { SF_FORMAT_MAT5 | SF_FORMAT_DOUBLE, 2 }, { SF_FORMAT_WAV | SF_FORMAT_MS_ADPCM, 2 }, { SF_FORMAT_AU | SF_FORMAT_G721_32, 1 } } ;
#define NFMTS 18
	static const int modes [] = { SFM_READ, SFM_WRITE, SFM_RDWR } ;
	int f, mi, a, b, c ;
	vh_init (argc, argv, "c09_invalid_calls", "C09") ;
	vh_case_secs = 900 ;		/* a depth-4 case runs 69 000 histories twice */
	if (vh_case ("open failures, NULL handle, error-number table")) { vh_distinct (1) ; vh_distinct (2) ; open_failures () ; }
	for (f = 0 ; f < NFMTS ; f++) for (mi = 0 ; mi < 3 ; mi++) for (a = 0 ; a < NCALLS ; a++)
	{	MEMF base ; int format = fmts [f][0], ch = fmts [f][1], depth = (vh_thorough && (f == 0 || f == 2 || f == 4 || f == 7)) ? 4 : 3, d ;
		/* G.72x and XI DPCM open in SFM_RDWR but implement no write there: every write fails with SFE_UNIMPLEMENTED, which is a recorded failure and not this
		** property's business; the model of "valid write succeeds" does not describe them, so they run in read and write mode only */
		if (mi == 2 && ((format & SF_FORMAT_SUBMASK) == SF_FORMAT_G721_32 || (format & SF_FORMAT_SUBMASK) == SF_FORMAT_DPCM_16)) continue ;
		if (!vh_case ("%s ch=%d mode=%s first=%s depth=%d", vh_fname (format), ch, mi == 0 ? "read" : mi == 1 ? "write" : "rdwr", calls [a].name, depth)) continue ;
		if (vh_make_file (&base, format, ch, 8000, 700, 1) != 0) { mv_free (&base) ; continue ; }
		vh_sample ("%s ch=%d mode=%s: every sequence of %d calls from the %d-call alphabet starting with %s; each history with a failed call is re-run without its failed calls on a twin handle", vh_fname (format), ch, mi == 0 ? "read" : mi == 1 ? "write" : "rdwr", depth, NCALLS, calls [a].name) ;
		for (b = 0 ; b < NCALLS ; b++) for (c = 0 ; c < NCALLS ; c++) for (d = 0 ; d < (depth == 4 ? NCALLS : 1) ; d++)
		{	H h ;
			if (h_open (&h, format, ch, modes [mi], &base) != 0) { if (b == 0 && c == 0 && d == 0) vh_statf (1, "cannot_open:%s:%d", vh_fname (format), mi) ; goto next ; }
			do_call (&h, a) ; do_call (&h, b) ; do_call (&h, c) ; if (depth == 4) do_call (&h, d) ;
			twin_check (&h, format, ch, modes [mi], &base, a, b, c, d) ;
			vh_distinct (vh_fnv (0, &format, 4) ^ ((uint64_t) mi << 40) ^ ((uint64_t) a << 20) ^ ((uint64_t) b << 10) ^ (uint64_t) c ^ ((uint64_t) depth << 50) ^ ((uint64_t) (depth == 4 ? d + 1 : 0) << 54)) ;
			vh_stat ("histories", 1) ;
			if (h.s) sf_close (h.s) ; mv_free (&h.m) ;
			}
	next :
		mv_free (&base) ;
		}
	return vh_finish () ;
}
