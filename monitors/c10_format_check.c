/* C10 — sf_format_check agrees with what can really be written; the format lists are sound.
** The property's grid is finite and is enumerated completely:
**   (every major the library lists) x (every subtype it lists) x endian {FILE, LITTLE, BIG, CPU}
**   x channels {0,1,2,3,8,9,256,257,1024,1025} x samplerate {-1,0,1,8000,44100,2^31-1}.
** For every point: sf_format_check == (sf_open for write succeeds).  Every accepted point: frames are accepted through
** each of the four sample types, sf_close returns 0, re-opening for read reports the same container and encoding.
** Plus: the simple/major/subtype enumerations and SFC_GET_FORMAT_INFO.
*/
#include "vh.h"

static const int chans [] = { 0, 1, 2, 3, 8, 9, 256, 257, 1024, 1025 } ;
static const int rates [] = { -1, 0, 1, 8000, 44100, 2147483647 } ;
static const int endians [] = { SF_ENDIAN_FILE, SF_ENDIAN_LITTLE, SF_ENDIAN_BIG, SF_ENDIAN_CPU } ;

static void check_point (int format, int ch, int rate)
{	SF_INFO wi, ri ; MEMF m ; SNDFILE *s ; int fc, maj = format & SF_FORMAT_TYPEMASK ; char path [300] = "" ; const char *fn = vh_fname (format) ;
	memset (&wi, 0, sizeof (wi)) ; wi.format = format ; wi.channels = ch ; wi.samplerate = rate ;
	fc = sf_format_check (&wi) ;
	vh_stat ("grid_points", 1) ; vh_stat (fc ? "accepted_by_format_check" : "rejected_by_format_check", 1) ;
	memset (&m, 0, sizeof (m)) ;
	if (maj == SF_FORMAT_SD2)
	{	const char *d = getenv ("VERIF_SCRATCH_DIR") ; snprintf (path, sizeof (path), "%s/c10_%d.sd2", d ? d : ".", (int) getpid ()) ; s = sf_open (path, SFM_WRITE, &wi) ; }
	else s = sf_open_virtual (&MVIO, SFM_WRITE, &wi, &m) ;
	if ((s != NULL) != (fc != 0))
	{	vh_viol (vh_key ("C10|check-open-disagree|%s/%s|%s%s", fn, vh_endname (format), fc ? "check-yes-open-no" : "check-no-open-yes", rate == 0 ? "|samplerate=0" : ""), "channels=%d samplerate=%d: sf_format_check=%d, sf_open (write) %s (%s)", ch, rate, fc, s ? "succeeded" : "failed", s ? "-" : sf_strerror (NULL)) ;
		if (s) sf_close (s) ; goto done ; }
	if (s == NULL)
	{	if (sf_error (NULL) == 0) vh_viol (vh_key ("C10|rejected-without-error|%s", fn), "channels=%d samplerate=%d: open failed with sf_error (NULL) == 0", ch, rate) ;
		goto done ; }
	/* accepted: frames through each of the four sample types */
	{	int t, n = 10, i ; size_t items = (size_t) n * ch ; void *buf = calloc (items, 8) ;
		for (t = 0 ; t < T_N ; t++)
		{	sf_count_t w ;
			for (i = 0 ; i < (int) items ; i++) switch (t) { case T_SHORT : ((short *) buf) [i] = (short) (i * 3) ; break ; case T_INT : ((int *) buf) [i] = i * 200000 ; break ; case T_FLOAT : ((float *) buf) [i] = 0.01f * (i % 50) ; break ; default : ((double *) buf) [i] = 0.01 * (i % 50) ; }
			w = vh_write_t (s, t, t & 1, buf, (sf_count_t) items, ch) ;
			if (w != (sf_count_t) items) { vh_viol (vh_key ("C10|accepted-but-unwritable|%s|%s", fn, vh_tname [t]), "channels=%d samplerate=%d: write of %zu %s items returned %lld (%s)", ch, rate, items, vh_tname [t], (long long) w, sf_strerror (s)) ; break ; }
			}
		free (buf) ;
		}
	{	int ce = sf_close (s) ; if (ce) vh_viol (vh_key ("C10|close-error|%s", fn), "channels=%d samplerate=%d: sf_close returned %d", ch, rate, ce) ; }
	/* re-open: same container and encoding */
	memset (&ri, 0, sizeof (ri)) ;
	if (maj == SF_FORMAT_RAW) ri = wi ;
	if (maj == SF_FORMAT_SD2) s = sf_open (path, SFM_READ, &ri) ; else { m.pos = 0 ; s = sf_open_virtual (&MVIO, SFM_READ, &ri, &m) ; }
	if (s == NULL)
	{	/* a sample rate the container's field cannot hold is C04's finding, not a disagreement about the format grid */
		int rate_edge = (rate == 2147483647 || rate == 1) ;
		vh_viol (vh_key ("C10|reopen-failed|%s%s", fn, rate_edge ? "|extreme-rate" : ""), "channels=%d samplerate=%d: %s", ch, rate, sf_strerror (NULL)) ; goto done ; }
	if ((ri.format & (SF_FORMAT_TYPEMASK | SF_FORMAT_SUBMASK)) != (format & (SF_FORMAT_TYPEMASK | SF_FORMAT_SUBMASK)))
		vh_viol (vh_key ("C10|reopens-as-other-format|%s", fn), "channels=%d samplerate=%d: wrote 0x%x, re-open reports 0x%x (%s)", ch, rate, format, ri.format, vh_fname (ri.format)) ;
	else vh_stat ("accepted_points_verified", 1) ;
	sf_close (s) ;
done :
	if (path [0]) { char r2 [320] ; unlink (path) ; snprintf (r2, sizeof (r2), "%.*s._%s", (int) (strrchr (path, '/') - path + 1), path, strrchr (path, '/') + 1) ; unlink (r2) ; }
	mv_free (&m) ;
}

static void check_lists (void)
{	int n, i, j, k ; SF_FORMAT_INFO a, b ; static char names [3][80][64] ; static int fmts [3][80] ; int cnt [3] ;
	static const int ccmd [] = { SFC_GET_SIMPLE_FORMAT_COUNT, SFC_GET_FORMAT_MAJOR_COUNT, SFC_GET_FORMAT_SUBTYPE_COUNT }, gcmd [] = { SFC_GET_SIMPLE_FORMAT, SFC_GET_FORMAT_MAJOR, SFC_GET_FORMAT_SUBTYPE } ;
	static const char *ln [] = { "simple", "major", "subtype" } ;
	for (k = 0 ; k < 3 ; k++)
	{	n = -1 ; if (sf_command (NULL, ccmd [k], &n, sizeof (n)) != 0 || n < 1 || n > 80) { vh_viol (vh_key ("C10|list-count|%s", ln [k]), "count command failed or returned %d", n) ; cnt [k] = 0 ; continue ; }
		cnt [k] = n ;
		for (i = 0 ; i < n ; i++)
		{	memset (&a, 0, sizeof (a)) ; a.format = i ;
			if (sf_command (NULL, gcmd [k], &a, sizeof (a)) != 0) { vh_viol (vh_key ("C10|list-entry|%s", ln [k]), "entry %d of %d: command failed", i, n) ; names [k][i][0] = 0 ; continue ; }
			if (a.name == NULL || !*a.name) vh_viol (vh_key ("C10|list-nameless|%s", ln [k]), "entry %d (format 0x%x) has no name", i, a.format) ;
			snprintf (names [k][i], 64, "%s", a.name ? a.name : "") ; fmts [k][i] = a.format ;
			if (k < 2 && (a.extension == NULL || !*a.extension)) vh_viol (vh_key ("C10|list-no-extension|%s", ln [k]), "entry %d (%s) has no extension", i, a.name) ;
			for (j = 0 ; j < i ; j++)
			{	if (fmts [k][j] == a.format) vh_viol (vh_key ("C10|list-duplicate-format|%s", ln [k]), "entries %d and %d both are format 0x%x", j, i, a.format) ;
				if (!strcmp (names [k][j], names [k][i]) && names [k][i][0]) vh_viol (vh_key ("C10|list-duplicate-name|%s", ln [k]), "entries %d and %d are both named '%s'", j, i, names [k][i]) ; }
			/* SFC_GET_FORMAT_INFO agrees */
			memset (&b, 0, sizeof (b)) ; b.format = a.format ;
			if (sf_command (NULL, SFC_GET_FORMAT_INFO, &b, sizeof (b)) != 0 || b.name == NULL || (k > 0 && strcmp (b.name, a.name))) vh_viol (vh_key ("C10|format-info-disagrees|%s", ln [k]), "format 0x%x: list says '%s', SFC_GET_FORMAT_INFO says '%s'", a.format, a.name, b.name ? b.name : "(failed)") ;
			vh_stat ("list_entries_checked", 1) ;
			}
		/* out-of-range indices must be rejected */
		{	static const int bad [] = { -1, 0, 1, 1000, 0x7fffffff, -2147483647 - 1 } ;
			for (i = 0 ; i < 6 ; i++) { int idx = (i == 1) ? n : (i == 2) ? n + 1 : bad [i] ; memset (&a, 0, sizeof (a)) ; a.format = idx ;
				if (sf_command (NULL, gcmd [k], &a, sizeof (a)) == 0) vh_viol (vh_key ("C10|list-out-of-range-accepted|%s", ln [k]), "index %d of a %d-entry list was accepted (name '%s')", idx, n, a.name ? a.name : "") ;
				vh_stat ("out_of_range_indices_checked", 1) ; }
			}
		}
	/* every simple format passes sf_format_check (mono or stereo, 44100) */
	for (i = 0 ; i < cnt [0] ; i++)
	{	SF_INFO si ; int ok = 0, c ; for (c = 1 ; c <= 2 ; c++) { memset (&si, 0, sizeof (si)) ; si.format = fmts [0][i] ; si.channels = c ; si.samplerate = 44100 ; ok |= sf_format_check (&si) ; }
		if (!ok) vh_viol (vh_key ("C10|simple-format-not-valid|0x%x", fmts [0][i]), "simple format '%s' (0x%x) fails sf_format_check for 1 and 2 channels", names [0][i], fmts [0][i]) ; }
	/* every major has at least one usable subtype */
	for (i = 0 ; i < cnt [1] ; i++)
	{	int ok = 0, c ; for (j = 0 ; j < cnt [2] && !ok ; j++) for (c = 1 ; c <= 2 && !ok ; c++) { SF_INFO si ; static const int rr [] = { 8000, 44100, 16000 } ; int r ; for (r = 0 ; r < 3 && !ok ; r++) { memset (&si, 0, sizeof (si)) ; si.format = fmts [1][i] | fmts [2][j] ; si.channels = c ; si.samplerate = rr [r] ; ok = sf_format_check (&si) ; } }
		if (!ok) vh_viol (vh_key ("C10|major-without-subtype|%s", vh_short_major (fmts [1][i])), "major '%s' accepts no listed subtype", names [1][i]) ; }
	/* bogus format words */
	{	static const int bogus [] = { 0, 0x7fff0000, 0x00ff0000, 0x0001ffff, 0x01000000 } ;
		for (i = 0 ; i < 5 ; i++) { memset (&a, 0, sizeof (a)) ; a.format = bogus [i] ; if (sf_command (NULL, SFC_GET_FORMAT_INFO, &a, sizeof (a)) == 0 && i != 3) vh_viol ("C10|format-info-accepts-bogus", "SFC_GET_FORMAT_INFO accepted 0x%x ('%s')", bogus [i], a.name ? a.name : "") ; }
		}
}

int main (int argc, char **argv)
{	int a, b, e, c, r ;
	vh_init (argc, argv, "c10_format_check", "C10") ;
	vh_enum_formats () ;
	if (vh_case ("enumeration commands")) { vh_distinct (7) ; check_lists () ; }
	for (a = 0 ; a < vh_nmaj ; a++) for (b = 0 ; b < vh_nsub ; b++) for (e = 0 ; e < 4 ; e++)
	{	int format = vh_majors [a].format | vh_subs [b].format | endians [e] ;
		if (!vh_case ("%s/%s grid", vh_fname (format), vh_endname (format))) continue ;
		vh_sample ("%s endian=%s: channels {0,1,2,3,8,9,256,257,1024,1025} x samplerate {-1,0,1,8000,44100,2^31-1}", vh_fname (format), vh_endname (format)) ;
		for (c = 0 ; c < 10 ; c++) for (r = 0 ; r < 6 ; r++)
		{	vh_distinct (vh_fnv (0, &format, 4) ^ ((uint64_t) chans [c] << 33) ^ ((uint64_t) (unsigned) rates [r] * 2654435761u)) ;
			check_point (format, chans [c], rates [r]) ;
			}
		}
	return vh_finish () ;
}
