/* C11 — header updates while a file grows past 2 GiB / 4 GiB: every crash point is a valid file (see bigfiles.inc.h) */
#define BIG_C11 1
#include "bigfiles.inc.h"
