/* C11 — after a header update the bytes on disk are already a valid file (crash points).
** Crash point = the instant after SFC_UPDATE_HEADER_NOW returns, or after each write call while SFC_SET_UPDATE_HEADER_AUTO is
** on.  At every crash point the backing store is copied ("the writer died here") and the copy is parsed by a second,
** independent handle: it must open, report the same parameters, a frame count equal to the frames written so far (whole
** blocks for block codecs) and decode to the same samples as the same positions of the finished file.  The finished file
** must hold the same audio as a run without any update.
*/
#include "vh.h"

static int is_alac (int format) { int s = format & SF_FORMAT_SUBMASK ; return s >= SF_FORMAT_ALAC_16 && s <= SF_FORMAT_ALAC_32 ; }

typedef struct { long n_so_far ; MEMF snap ; } CP ;

static long decode_all (MEMF *m, int format, int ch, int rate, int **out, SF_INFO *ri)
{	SNDFILE *s = vh_open_r (m, format, ch, rate, ri) ; long F, g ;
	*out = NULL ; if (!s) return -1 ;
	F = (long) ri->frames ; if (F < 0 || F > 4000000) { sf_close (s) ; return -2 ; }
	*out = calloc ((size_t) (F + 1) * ch + 8, sizeof (int)) ;
	g = (long) sf_readf_int (s, *out, F) ;
	sf_close (s) ; return g ;
}

static void writer_option (SNDFILE *s, int format, int opt)
{	switch (opt)
	{	case 1 : sf_command (s, SFC_SET_ADD_PEAK_CHUNK, NULL, SF_FALSE) ; break ;
		case 2 : if ((format & SF_FORMAT_TYPEMASK) == SF_FORMAT_WAVEX) sf_command (s, SFC_WAVEX_SET_AMBISONIC, NULL, SF_AMBISONIC_B_FORMAT) ; break ;
		default : break ; } }		/* SFC_RF64_AUTO_DOWNGRADE is left to C04: it changes the container the snapshots report, by design */
static void run_case (int format, int ch, int rate, int t, int mode /* 0 explicit, 1 auto, 2 raw+auto, 3 raw+explicit */, int pattern)
{	MEMF m, m0 ; SNDFILE *s ; const char *fn = vh_fname (format) ; int B = vh_block (format, ch, rate), ncp = 0, i, ts = vh_tsize [t] ; long N = 0, total ; CP cps [48] ; char *data ; int *fin = NULL, *ref0 = NULL, wopt ; SF_INFO ri ; long gfin ;
	int granular = vh_sample_granular (format), bw = (vh_bits (format) ? vh_bits (format) / 8 : 1) * ch ;
	const char *mname = mode == 0 ? "update-now" : mode == 1 ? "auto" : mode == 2 ? "raw+auto" : "raw+update-now" ;
	total = (B > 1 ? 6 * B + 11 : 3000) ; if (total * ch > 40000) total = 40000 / ch ;
	data = vh_guard_alloc ((size_t) total * ch * 8 + 64, 0) ;
	for (i = 0 ; i < total * ch ; i++)
	{	double v = 0.6 * sin (i * 0.011) + 0.1 * sin (i * 0.29) ;
		switch (t) { case T_SHORT : ((short *) data) [i] = (short) (v * 30000) ; break ; case T_INT : ((int *) data) [i] = (int) (v * 2.0e9) ; break ; case T_FLOAT : ((float *) data) [i] = (float) v ; break ; default : ((double *) data) [i] = v ; } }
	/* run without any header update: the reference audio */
	wopt = vh_rint (6) ; if (wopt > 3) wopt = 0 ; vh_statf (1, "writer-option:%d", wopt) ;		/* one header-only writer option per case, the same in both runs */
	memset (&m0, 0, sizeof (m0)) ; s = vh_open_w (&m0, format, ch, rate, NULL) ; if (!s) { free (data) ; return ; }
	writer_option (s, format, wopt) ;
	if (mode >= 2) { if (sf_write_raw (s, data, total * bw) != total * bw) { sf_close (s) ; mv_free (&m0) ; free (data) ; return ; } }
	else if (vh_write_t (s, t, 1, data, total * ch, ch) != total * ch) { sf_close (s) ; mv_free (&m0) ; free (data) ; vh_statf (1, "cannot_write:%s", fn) ; return ; }
	sf_close (s) ;
	/* run with updates, snapshot at every crash point */
	memset (&m, 0, sizeof (m)) ; s = vh_open_w (&m, format, ch, rate, NULL) ;
	writer_option (s, format, wopt) ;
	if (mode == 1 || mode == 2) sf_command (s, SFC_SET_UPDATE_HEADER_AUTO, NULL, SF_TRUE) ;
	while (N < total && ncp < 46)
	{	long k ; sf_count_t w ;
		switch (pattern) { case 0 : k = 1 + vh_rint (7) ; break ; case 1 : k = B > 1 ? B - 1 + vh_rint (3) : 50 + vh_rint (5) ; break ; case 2 : k = 2049 / ch + vh_rint (400) ; break ; default : k = (ncp % 3 == 0) ? 1 : (ncp % 3 == 1) ? B + vh_rint (B + 3) : 200 + vh_rint (900) ; }
		if (ncp > 40) k = total ; if (k > total - N) k = total - N ;
		if (mode >= 2) { w = sf_write_raw (s, data + N * bw, k * bw) ; if (w != k * bw) { vh_viol (vh_key ("C11|write-failed|%s", fn), "raw write returned %lld", (long long) w) ; break ; } }
		else { w = vh_write_t (s, t, vh_rint (2), data + N * ch * ts, k * ch, ch) ; if (w != k * ch) { vh_viol (vh_key ("C11|write-failed|%s", fn), "write returned %lld of %ld", (long long) w, k * ch) ; break ; } }
		N += k ;
		if (mode == 0 || mode == 3) sf_command (s, SFC_UPDATE_HEADER_NOW, NULL, 0) ;
		cps [ncp].n_so_far = N ; mv_copy (&cps [ncp].snap, &m) ; ncp++ ;		/* the writer "crashes" here */
		vh_check_inv (s, "update") ;
		}
	sf_close (s) ;
	/* the finished file */
	gfin = decode_all (&m, format, ch, rate, &fin, &ri) ;
	{	SF_INFO r0 ; long g0 = decode_all (&m0, format, ch, rate, &ref0, &r0) ;
		if (gfin != g0 || (gfin > 0 && memcmp (fin, ref0, (size_t) gfin * ch * sizeof (int))))
			vh_viol (vh_key ("C11|updates-change-final-audio|%s|%s", fn, mname), "ch=%d %s: the finished file decodes to %ld frames, the same writes without header updates give %ld%s", ch, vh_tname [t], gfin, g0, gfin == g0 ? " (data differs)" : "") ;
		else vh_stat ("final_files_equal_to_no_update_run", 1) ;
		}
	/* every crash point */
	for (i = 0 ; i < ncp ; i++)
	{	int *dec = NULL ; SF_INFO si ; long g = decode_all (&cps [i].snap, format, ch, rate, &dec, &si), n = cps [i].n_so_far, lo = (n / B) * B, F ;
		vh_stat ("crash_points_checked", 1) ;
		vh_distinct (vh_fnv (0, &format, 4) ^ ((uint64_t) ch << 33) ^ ((uint64_t) t << 36) ^ ((uint64_t) mode << 38) ^ ((uint64_t) n << 8) ^ ((uint64_t) pattern << 60)) ;
		if (g == -1) { vh_viol (vh_key ("C11|snapshot-unreadable|%s|%s", fn, mname), "ch=%d: after %ld frames (crash point %d) the copy of the bytes cannot be opened: %s", ch, n, i, sf_strerror (NULL)) ; free (dec) ; break ; }
		F = (long) si.frames ;
		if (si.channels != ch || (si.format & (SF_FORMAT_TYPEMASK | SF_FORMAT_SUBMASK)) != (format & (SF_FORMAT_TYPEMASK | SF_FORMAT_SUBMASK)) || (si.samplerate != ri.samplerate))
			vh_viol (vh_key ("C11|snapshot-parameters|%s|%s", fn, mname), "crash point %d: channels %d format 0x%x rate %d, finished file: %d 0x%x %d", i, si.channels, si.format, si.samplerate, ri.channels, ri.format, ri.samplerate) ;
		{	int ok = (F >= lo && F <= n) ;
			if (!ok && granular && F == n + 1 && (n & 1) && bw == 1) ok = 1 ;	/* pad frame of an odd 1-byte stream (see C04) */
			if (!ok) { vh_viol (vh_key ("C11|snapshot-frames|%s|%s|%s%s", fn, mname, F < lo ? "fewer-than-written" : "more-than-written", (wopt == 1 && vh_is_fp (format & SF_FORMAT_SUBMASK)) ? "|option:no-peak-chunk" : ""), "ch=%d %s: %ld frames written so far (block %d), the snapshot reports %ld", ch, vh_tname [t], n, B, F) ; free (dec) ; break ; }
			}
		if (g != F) vh_viol (vh_key ("C11|snapshot-short-read|%s|%s", fn, mname), "crash point %d: header says %ld frames, reading delivers %ld", i, F, g) ;
		else if (g > 0 && gfin >= g && memcmp (dec, fin, (size_t) g * ch * sizeof (int)))
		{	long a = 0 ; while (a < g * ch && dec [a] == fin [a]) a++ ;
			vh_viol (vh_key ("C11|snapshot-data|%s|%s%s", fn, mname, a / ch == g - 1 ? "|last-frame-only" : ""), "crash point %d (%ld frames): decoded prefix differs from the finished file first at frame %ld", i, n, a / ch) ; }
		else vh_stat ("snapshots_valid", 1) ;
		free (dec) ;
		}
	for (i = 0 ; i < ncp ; i++) mv_free (&cps [i].snap) ;
	free (fin) ; free (ref0) ; free (data) ; mv_free (&m) ; mv_free (&m0) ;
}

/* Appending to an existing file through SFM_RDWR while header updates are requested.  The base file carries a string that was set after
** the first audio (so a chunk follows the audio data in the containers that put strings at the end); it is re-opened SFM_RDWR, frames are
** appended through one of the 8 typed write entry points, and every call boundary is a crash point as above. */
static void run_rdwr_case (int format, int ch, int rate, int t, int framewise, int automode)
{	MEMF base, m, m0 ; SNDFILE *s ; const char *fn = vh_fname (format) ; int i, ncp = 0, ts = vh_tsize [t], pass ; long N0 = 700 + vh_rint (600), total = 1500 + vh_rint (1500), N = 0 ; CP cps [24] ; char *data ; short *b0 ;
	int *fin = NULL, *ref0 = NULL ; SF_INFO ri, r0 ; long gfin, g0 ; char mname [64] ;
	snprintf (mname, sizeof (mname), "rdwr-append+%s|%s%s", automode ? "auto" : "update-now", framewise ? "writef_" : "write_", vh_tname [t]) ;
	memset (&base, 0, sizeof (base)) ; s = vh_open_w (&base, format, ch, rate, NULL) ; if (!s) return ;
	b0 = malloc (sizeof (short) * N0 * ch) ; for (i = 0 ; i < N0 * ch ; i++) b0 [i] = (short) (8000 * sin (i * 0.013)) ;
	sf_writef_short (s, b0, N0 / 2) ; sf_set_string (s, SF_STR_COMMENT, "a comment set after the first audio, stored behind the data where the container allows") ; sf_writef_short (s, b0 + (N0 / 2) * ch, N0 - N0 / 2) ; sf_close (s) ; free (b0) ;
	data = vh_guard_alloc ((size_t) total * ch * 8 + 64, 0) ;
	for (i = 0 ; i < total * ch ; i++)
	{	double v = 0.5 * sin (i * 0.017) + 0.1 * sin (i * 0.41) ;
		switch (t) { case T_SHORT : ((short *) data) [i] = (short) (v * 30000) ; break ; case T_INT : ((int *) data) [i] = (int) (v * 2.0e9) ; break ; case T_FLOAT : ((float *) data) [i] = (float) v ; break ; default : ((double *) data) [i] = v ; } }
	memset (&m, 0, sizeof (m)) ; memset (&m0, 0, sizeof (m0)) ;
	for (pass = 0 ; pass < 2 ; pass++)		/* pass 0: no updates (reference), pass 1: updates + crash points */
	{	MEMF *mm = pass ? &m : &m0 ; SF_INFO si ; uint64_t keep = vh_rs ; long done = 0 ;
		mv_copy (mm, &base) ; memset (&si, 0, sizeof (si)) ; mm->pos = 0 ;
		s = sf_open_virtual (&MVIO, SFM_RDWR, &si, mm) ;
		if (!s) { if (pass == 0) vh_statf (1, "cannot_open_rdwr:%s", fn) ; goto out ; }
		if (pass && automode) sf_command (s, SFC_SET_UPDATE_HEADER_AUTO, NULL, SF_TRUE) ;
		if (sf_seek (s, 0, SEEK_END | SFM_WRITE) < 0) { sf_close (s) ; vh_statf (1, "cannot_seek_write_end:%s", fn) ; goto out ; }
		vh_rs = 0x1234567 + (uint64_t) total ;		/* the same split in both passes */
		while (done < total && (!pass || ncp < 22))
		{	long k = 1 + vh_rint (400) ; sf_count_t w ; if (ncp == 21) k = total ; if (k > total - done) k = total - done ;
			w = vh_write_t (s, t, framewise, data + done * ch * ts, k * ch, ch) ;
			if (w != k * ch) { vh_viol (vh_key ("C11|write-failed|%s|%s", fn, mname), "append wrote %lld of %ld items", (long long) w, k * ch) ; sf_close (s) ; vh_rs = keep ; goto out ; }
			done += k ;
			if (pass) { if (!automode) sf_command (s, SFC_UPDATE_HEADER_NOW, NULL, 0) ; cps [ncp].n_so_far = N0 + done ; mv_copy (&cps [ncp].snap, mm) ; ncp++ ; vh_check_inv (s, "rdwr update") ; }
			}
		N = N0 + done ; vh_rs = keep ;
		sf_close (s) ;
		}
	gfin = decode_all (&m, format, ch, rate, &fin, &ri) ; g0 = decode_all (&m0, format, ch, rate, &ref0, &r0) ;
	if (gfin != g0 || (gfin > 0 && memcmp (fin, ref0, (size_t) gfin * ch * sizeof (int))))
		vh_viol (vh_key ("C11|updates-change-final-audio|%s|%s", fn, mname), "ch=%d: the finished file decodes to %ld frames, the same appends without header updates give %ld%s (base %ld + appended)", ch, gfin, g0, gfin == g0 ? " (data differs)" : "", N0) ;
	else vh_stat ("final_files_equal_to_no_update_run", 1) ;
	for (i = 0 ; i < ncp ; i++)
	{	int *dec = NULL ; SF_INFO si ; long g = decode_all (&cps [i].snap, format, ch, rate, &dec, &si), n = cps [i].n_so_far, F ;
		vh_stat ("crash_points_checked", 1) ; vh_stat ("rdwr_append_crash_points", 1) ;
		vh_distinct (vh_fnv (0, &format, 4) ^ ((uint64_t) ch << 33) ^ ((uint64_t) t << 36) ^ ((uint64_t) (4 + automode) << 38) ^ ((uint64_t) n << 8) ^ ((uint64_t) framewise << 60)) ;
		if (g == -1) { vh_viol (vh_key ("C11|snapshot-unreadable|%s|%s", fn, mname), "ch=%d: after %ld frames (crash point %d) the copy of the bytes cannot be opened: %s", ch, n, i, sf_strerror (NULL)) ; free (dec) ; break ; }
		F = (long) si.frames ;
		if (!(F == n || (F == n + 1 && (n & 1) && vh_bits (format) == 8 && ch == 1)))
		{	vh_viol (vh_key ("C11|snapshot-frames|%s|%s|%s", fn, mname, F < n ? "fewer-than-written" : "more-than-written"), "ch=%d: base file of %ld frames re-opened SFM_RDWR, %ld frames in the file after the append at crash point %d, the snapshot reports %ld", ch, N0, n, i, F) ; free (dec) ; break ; }
		if (g != F) vh_viol (vh_key ("C11|snapshot-short-read|%s|%s", fn, mname), "crash point %d: header says %ld frames, reading delivers %ld", i, F, g) ;
		else if (g > 0 && gfin >= g && memcmp (dec, fin, (size_t) (g < n ? g : n) * ch * sizeof (int))) vh_viol (vh_key ("C11|snapshot-data|%s|%s", fn, mname), "crash point %d (%ld frames): decoded prefix differs from the finished file", i, n) ;
		else vh_stat ("snapshots_valid", 1) ;
		free (dec) ;
		}
	(void) N ;
out :
	for (i = 0 ; i < ncp ; i++) mv_free (&cps [i].snap) ;
	free (fin) ; free (ref0) ; free (data) ; mv_free (&m) ; mv_free (&m0) ; mv_free (&base) ;
}

int main (int argc, char **argv)
{	int f, c, mode, p ;
	vh_init (argc, argv, "c11_header_update", "C11") ;
	vh_enum_formats () ;
	for (f = 0 ; f < vh_nfmts ; f++) for (c = 1 ; c <= 3 ; c++)
	{	int format = vh_fmts [f].format, maj = vh_fmts [f].major ;
		if (maj == SF_FORMAT_SD2 || maj == SF_FORMAT_RAW) continue ;		/* RAW has no header; SD2 needs a path (resource fork) */
		if (is_alac (format)) continue ;									/* assembled at close: outside the guarantee */
		if (!vh_accepts (format, c, 8000)) continue ;
		for (mode = 0 ; mode < 4 ; mode++) for (p = 0 ; p < (vh_thorough ? 16 : 6) ; p++)
		{	int t = (p + mode + (int) vh_seed0) % T_N ;
			if (mode >= 2 && !vh_sample_granular (format)) continue ;
			if (mode >= 2 && p > 1 && !vh_thorough) continue ;
			if (!vh_case ("%s ch=%d mode=%d pattern=%d", vh_fname (format), c, mode, p)) continue ;
			vh_statf (1, "fmt:%s", vh_fname (format)) ;
			vh_sample ("%s ch=%d: %s, write pattern %d, type %s; every call boundary is a crash point (snapshot parsed by a second handle)", vh_fname (format), c, mode == 0 ? "SFC_UPDATE_HEADER_NOW after each call" : mode == 1 ? "SFC_SET_UPDATE_HEADER_AUTO" : mode == 2 ? "sf_write_raw + auto update" : "sf_write_raw + UPDATE_HEADER_NOW", p % 4, vh_tname [t]) ;
			run_case (format, c, 8000, t, mode, p % 4) ;
			}
		/* SFM_RDWR append with updates: sample-granular encodings only */
		if (vh_sample_granular (format) && maj != SF_FORMAT_SDS && c <= 2)
		{	int t, fw, am ;
			for (t = 0 ; t < T_N ; t++) for (fw = 0 ; fw < 2 ; fw++) for (am = 0 ; am < 2 ; am++)
			{	if (!vh_thorough && ((t + fw + am + c) & 1)) continue ;
				if (!vh_case ("%s ch=%d rdwr append %s%s %s", vh_fname (format), c, fw ? "writef_" : "write_", vh_tname [t], am ? "auto" : "update-now")) continue ;
				run_rdwr_case (format, c, 8000, t, fw, am) ;
				}
			}
		}
	return vh_finish () ;
}
