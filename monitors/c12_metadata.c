/* C12 — metadata set before the audio survives close and re-open unchanged.
** Oracle: field-by-field comparison of what the matching get call returns after re-open with what was set, after the
** documented normalisations (library suffix on the software string, generated coding-history line, CR/LF line ends, even
** padding).  Which (container, item) pairs are stored is a harness constant written from the docs and the writers.
** Rule used everywhere: if the set call reported success AND the pair is in the matrix, the value must survive; items
** outside the matrix (or set too late) may be refused or ignored, but audio and the other items must be intact.
*/
#include "vh.h"
#include <stddef.h>
#include "g711ref.h"

enum { K_STR, K_BEXT, K_CART, K_CUE, K_INST, K_CHMAP, K_N } ;
static const char *kn [] = { "strings", "bext", "cart", "cues", "instrument", "chanmap" } ;

static int in_matrix (int maj, int kind, int strtype)
{	switch (kind)
	{	case K_STR :
			if (maj == SF_FORMAT_WAV || maj == SF_FORMAT_WAVEX || maj == SF_FORMAT_RF64) return strtype != SF_STR_LICENSE ;
			if (maj == SF_FORMAT_AIFF) return strtype == SF_STR_TITLE || strtype == SF_STR_COPYRIGHT || strtype == SF_STR_SOFTWARE || strtype == SF_STR_ARTIST || strtype == SF_STR_COMMENT ;
			if (maj == SF_FORMAT_CAF) return 1 ;
			return 0 ;
		case K_BEXT : return maj == SF_FORMAT_WAV || maj == SF_FORMAT_WAVEX || maj == SF_FORMAT_RF64 ;
		case K_CART : return maj == SF_FORMAT_WAV || maj == SF_FORMAT_RF64 ;
		case K_CUE : return maj == SF_FORMAT_WAV || maj == SF_FORMAT_WAVEX || maj == SF_FORMAT_AIFF ;
		case K_INST : return maj == SF_FORMAT_WAV || maj == SF_FORMAT_WAVEX ;
		case K_CHMAP : return maj == SF_FORMAT_WAVEX || maj == SF_FORMAT_RF64 || maj == SF_FORMAT_AIFF || maj == SF_FORMAT_CAF ;
		}
	return 0 ;
}

static void rnd_text (char *out, int len, int crlf)
{	static const char *words [] = { "alpha", "Bravo", "charlie-7", "d", "Echo echo", "f0xtr0t", "golf;", "hotel=", "[india]", "Juliet!", "kilo/", "lima\\", "m", "november 1999", "oscar.wav", "\xc3\xa9t\xc3\xa9", "\xe2\x82\xac" } ; int n = 0 ;
	while (n < len)
	{	const char *w = words [vh_rint (17)] ; int l = (int) strlen (w) ;
		if (n + l > len) { while (n < len) out [n++] = 'a' + vh_rint (26) ; break ; }
		memcpy (out + n, w, l) ; n += l ; if (n < len) out [n++] = (crlf && vh_rint (9) == 0 && n + 2 < len) ? '\n' : ' ' ;
		}
	if (len > 0 && (out [len - 1] == ' ' || out [len - 1] == '\n')) out [len - 1] = 'z' ;
	out [len] = 0 ;
}
static void fill_field (char *f, int n, int full) { int l = full ? n : vh_rint (n + 1), i ; memset (f, 0, n) ; for (i = 0 ; i < l ; i++) f [i] = 'A' + vh_rint (50) ; }

typedef struct
{	int format, ch, rate, late ;
	int set [K_N] ; int setrc [K_N] ;
	char str [SF_STR_LAST + 1][700] ; int strset [SF_STR_LAST + 1], strrc [SF_STR_LAST + 1] ;
	SF_BROADCAST_INFO_VAR (17000) bext ; int bext_size ;
	SF_CART_INFO_VAR (4000) cart ; int cart_size ;
	SF_CUES cues ;
	SF_INSTRUMENT inst ;
	int chmap [16] ;
} META ;

static void gen_meta (META *me, int format, int ch, int mask)
{	int t, i, maj = format & SF_FORMAT_TYPEMASK ;
	memset (me, 0, sizeof (*me)) ; me->format = format ; me->ch = ch ; me->rate = 44100 ;
	if (mask & 1) { me->set [K_STR] = 1 ; for (t = SF_STR_FIRST ; t <= SF_STR_LAST ; t++) if (vh_rint (4)) { static const int lens [] = { 1, 2, 3, 4, 7, 8, 31, 32, 33, 63, 64, 127, 128, 255, 256, 257, 511, 600 } ; int l = lens [vh_rint (t == SF_STR_SOFTWARE ? 9 : 18)] ; me->strset [t] = 1 ; rnd_text (me->str [t], l, 0) ; } }
	if (mask & 2)
	{	int hl ; me->set [K_BEXT] = 1 ;
		fill_field (me->bext.description, 256, vh_rint (2)) ; fill_field (me->bext.originator, 32, vh_rint (2)) ; fill_field (me->bext.originator_reference, 32, vh_rint (2)) ; fill_field (me->bext.origination_date, 10, 1) ; fill_field (me->bext.origination_time, 8, 1) ;
		me->bext.time_reference_low = (uint32_t) vh_rnd () ; me->bext.time_reference_high = (uint32_t) vh_rnd () ; me->bext.version = (short) (vh_rint (3)) ; fill_field (me->bext.umid, 64, vh_rint (2)) ;
		me->bext.loudness_value = (int16_t) vh_rnd () ; me->bext.loudness_range = (int16_t) vh_rnd () ; me->bext.max_true_peak_level = (int16_t) vh_rnd () ; me->bext.max_momentary_loudness = (int16_t) vh_rnd () ; me->bext.max_shortterm_loudness = (int16_t) vh_rnd () ;
		{	static const int hls [] = { 0, 1, 2, 17, 255, 256, 257, 1000, 4000, 15000 } ; hl = hls [vh_rint (10)] ; }
		rnd_text (me->bext.coding_history, hl, 1) ; me->bext.coding_history_size = hl ; me->bext_size = (int) (offsetof (SF_BROADCAST_INFO, coding_history) + hl) ; if (vh_rint (3) == 0 && hl < 256) me->bext_size = sizeof (SF_BROADCAST_INFO) ;
		}
	if (mask & 4)
	{	int tl ; me->set [K_CART] = 1 ;
		memcpy (me->cart.version, "0101", 4) ; fill_field (me->cart.title, 64, vh_rint (2)) ; fill_field (me->cart.artist, 64, vh_rint (2)) ; fill_field (me->cart.cut_id, 64, 0) ; fill_field (me->cart.client_id, 64, 0) ; fill_field (me->cart.category, 64, 0) ; fill_field (me->cart.classification, 64, 0) ;
		fill_field (me->cart.out_cue, 64, 0) ; fill_field (me->cart.start_date, 10, 1) ; fill_field (me->cart.start_time, 8, 1) ; fill_field (me->cart.end_date, 10, 1) ; fill_field (me->cart.end_time, 8, 1) ; fill_field (me->cart.producer_app_id, 64, 0) ; fill_field (me->cart.producer_app_version, 64, 0) ; fill_field (me->cart.user_def, 64, 0) ;
		me->cart.level_reference = (int32_t) vh_rnd () ; for (i = 0 ; i < 8 ; i++) { fill_field (me->cart.post_timers [i].usage, 4, 1) ; me->cart.post_timers [i].value = (int32_t) vh_rnd () ; }
		fill_field (me->cart.url, 1024, 0) ;
		{	static const int tls [] = { 0, 1, 2, 3, 4, 5, 255, 256, 1000, 3999 } ; tl = tls [vh_rint (10)] ; } rnd_text (me->cart.tag_text, tl, 0) ; me->cart.tag_text_size = tl ; me->cart_size = (int) (offsetof (SF_CART_INFO, tag_text) + tl) ; if (vh_rint (3) == 0 && tl < 256) me->cart_size = sizeof (SF_CART_INFO) ;
		}
	if (mask & 8)
	{	static const int cn [] = { 0, 1, 2, 3, 10, 50, 99, 100 } ; int n = cn [vh_rint (8)] ; me->set [K_CUE] = 1 ; me->cues.cue_count = n ;
		for (i = 0 ; i < n ; i++) { SF_CUE_POINT *c = &me->cues.cue_points [i] ; c->indx = i + 1 ; c->position = (uint32_t) (i * 7 + vh_rint (5)) ; c->fcc_chunk = 0x61746164 ; c->chunk_start = 0 ; c->block_start = 0 ; c->sample_offset = c->position ; snprintf (c->name, sizeof (c->name), "cue %d %c", i, 'a' + vh_rint (26)) ; }
		}
	if (mask & 16)
	{	int n = vh_rint (3) == 0 ? 16 : vh_rint (5) ; me->set [K_INST] = 1 ;
		me->inst.gain = 1 ; me->inst.basenote = (char) vh_rint (128) ; me->inst.detune = (char) (vh_rint (2) ? vh_rint (50) : vh_rint (100) - 50) ; me->inst.velocity_lo = 0 ; me->inst.velocity_hi = 127 ; me->inst.key_lo = 0 ; me->inst.key_hi = 127 ; me->inst.loop_count = n ;
		for (i = 0 ; i < n ; i++) { me->inst.loops [i].mode = SF_LOOP_FORWARD + vh_rint (3) ; me->inst.loops [i].start = (uint32_t) (i * 20 + 1) ; me->inst.loops [i].end = (uint32_t) (i * 20 + 10 + vh_rint (9)) ; me->inst.loops [i].count = (uint32_t) vh_rint (5) ; }
		}
	if (mask & 32)
	{	/* channel maps: the speaker positions in the canonical (WAVEX bit) order, which every listed container can express */
		static const int order [] = { SF_CHANNEL_MAP_LEFT, SF_CHANNEL_MAP_RIGHT, SF_CHANNEL_MAP_CENTER, SF_CHANNEL_MAP_LFE, SF_CHANNEL_MAP_REAR_LEFT, SF_CHANNEL_MAP_REAR_RIGHT, SF_CHANNEL_MAP_FRONT_LEFT_OF_CENTER, SF_CHANNEL_MAP_FRONT_RIGHT_OF_CENTER } ;
		me->set [K_CHMAP] = 1 ;
		if (ch == 1) me->chmap [0] = vh_rint (2) ? SF_CHANNEL_MAP_MONO : SF_CHANNEL_MAP_CENTER ; else for (i = 0 ; i < ch && i < 8 ; i++) me->chmap [i] = order [i] ;
		if (maj == SF_FORMAT_AIFF && ch == 1) me->chmap [0] = SF_CHANNEL_MAP_MONO ;
		}
}

static void apply_meta (SNDFILE *s, META *me, int order_seed)
{	int ord [K_N], i, j, t ;
	for (i = 0 ; i < K_N ; i++) ord [i] = i ;
	{	uint64_t sv = vh_rs ; vh_srand (order_seed) ; for (i = K_N - 1 ; i > 0 ; i--) { j = vh_rint (i + 1) ; t = ord [i] ; ord [i] = ord [j] ; ord [j] = t ; } vh_rs = sv ; }
	for (i = 0 ; i < K_N ; i++) if (me->set [ord [i]]) switch (ord [i])
	{	case K_STR : { int ord [SF_STR_LAST + 2], n = 0, j ; for (t = SF_STR_FIRST ; t <= SF_STR_LAST ; t++) ord [n++] = t ;
			for (j = n - 1 ; j > 0 ; j--) { int x = vh_rint (j + 1), tmp = ord [j] ; ord [j] = ord [x] ; ord [x] = tmp ; }		/* strings are set in a shuffled order */
			for (j = 0 ; j < n ; j++) if (me->strset [ord [j]]) me->strrc [ord [j]] = sf_set_string (s, ord [j], me->str [ord [j]]) ; } break ;
		case K_BEXT : me->setrc [K_BEXT] = sf_command (s, SFC_SET_BROADCAST_INFO, &me->bext, me->bext_size) ; break ;		/* SF_TRUE on success */
		case K_CART : me->setrc [K_CART] = sf_command (s, SFC_SET_CART_INFO, &me->cart, me->cart_size) ; break ;
		case K_CUE : me->setrc [K_CUE] = sf_command (s, SFC_SET_CUE, &me->cues, sizeof (me->cues)) ; break ;
		case K_INST : me->setrc [K_INST] = sf_command (s, SFC_SET_INSTRUMENT, &me->inst, sizeof (me->inst)) ; break ;
		case K_CHMAP : me->setrc [K_CHMAP] = sf_command (s, SFC_SET_CHANNEL_MAP_INFO, me->chmap, me->ch * sizeof (int)) ; break ;
		}
}

static void crlf (char *out, size_t max, const char *in)
{	size_t n = 0 ; for ( ; *in && n + 3 < max ; in++) { if (*in == '\n' && (n == 0 || out [n - 1] != '\r')) out [n++] = '\r' ; out [n++] = *in ; if (*in == '\r' && in [1] != '\n') out [n++] = '\n' ; } out [n] = 0 ; }

#define FIELD(kind, name, a, b, n) do { if (memcmp (a, b, n)) vh_viol (vh_key ("C12|%s-field|%s|%s%s", kind, name, fn, q), "field %s differs after re-open", name) ; } while (0)

static void check_meta (SNDFILE *r, META *me, const char *fn, const char *q, int expect_stored, int late_mask)
{	int maj = me->format & SF_FORMAT_TYPEMASK, t, i, inst_anywhere = me->set [K_INST] || (late_mask & (1 << K_INST)) ;
	/* an item that is set again after the audio may legitimately be updated in place (same item, not "other metadata"): such kinds are not compared */
	for (i = 0 ; i < K_N ; i++) if (late_mask & (1 << i)) me->set [i] = 0 ;
	if (me->set [K_STR]) for (t = SF_STR_FIRST ; t <= SF_STR_LAST ; t++) if (me->strset [t])
	{	const char *g = sf_get_string (r, t) ; char want [900] ;
		vh_stat ("strings_checked", 1) ;
		if (!(expect_stored && in_matrix (maj, K_STR, t) && me->strrc [t] == 0)) continue ;
		if (t == SF_STR_SOFTWARE) snprintf (want, sizeof (want), "%s (%s)", me->str [t], sf_version_string ()) ; else snprintf (want, sizeof (want), "%s", me->str [t]) ;
		if (t == SF_STR_SOFTWARE && strlen (me->str [t]) > 64) continue ;		/* long software strings are truncated by an undocumented staging buffer: observed only */
		if (g == NULL) vh_viol (vh_key ("C12|string-lost|type%d|%s%s", t, fn, q), "string type %d of %zu bytes set (rc 0) but absent after re-open", t, strlen (me->str [t])) ;
		else if (strcmp (g, want)) vh_viol (vh_key ("C12|string-changed|type%d|%s%s%s", t, fn, q, strpbrk (want, "\xc3\xe2") ? "|non-ascii" : ""), "string type %d: set %zu bytes '%.40s...', got %zu bytes '%.40s...'", t, strlen (want), want, strlen (g), g) ;
		}
	/* strings that were never set must not appear (the library adds SF_STR_SOFTWARE itself) */
	if (!(late_mask & (1 << K_STR))) for (t = SF_STR_FIRST ; t <= SF_STR_LAST ; t++) if (!(me->set [K_STR] && me->strset [t]) && t != SF_STR_SOFTWARE)
	{	const char *g = sf_get_string (r, t) ; vh_stat ("absent_strings_checked", 1) ;
		if (g != NULL) vh_viol (vh_key ("C12|string-appeared|type%d|%s%s", t, fn, q), "string type %d was never set but reads back as '%.60s' after re-open", t, g) ;
		}
	if (me->set [K_BEXT] && expect_stored && in_matrix (maj, K_BEXT, 0))
	{	static SF_BROADCAST_INFO_VAR (17000) g ; int rc ; memset (&g, 0, sizeof (g)) ; rc = sf_command (r, SFC_GET_BROADCAST_INFO, &g, sizeof (g)) ; vh_stat ("bext_checked", 1) ;
		if (me->setrc [K_BEXT] != SF_TRUE) vh_viol (vh_key ("C12|bext-set-refused|%s%s", fn, q), "SFC_SET_BROADCAST_INFO (size %d, history %u) before any audio returned %d", me->bext_size, me->bext.coding_history_size, me->setrc [K_BEXT]) ;
		else if (rc != SF_TRUE) vh_viol (vh_key ("C12|bext-lost|%s%s%s", fn, q, me->bext.coding_history_size > 9000 ? "|history>9000" : ""), "bext (struct size passed %d, coding history %u bytes, description %zu bytes) set with rc TRUE but SFC_GET_BROADCAST_INFO returns %d after re-open", me->bext_size, me->bext.coding_history_size, strnlen (me->bext.description, 256), rc) ;
		else
		{	char want [20000] ; size_t wl ;
			FIELD ("bext", "description", g.description, me->bext.description, 256) ; FIELD ("bext", "originator", g.originator, me->bext.originator, 32) ; FIELD ("bext", "originator_reference", g.originator_reference, me->bext.originator_reference, 32) ;
			FIELD ("bext", "origination_date", g.origination_date, me->bext.origination_date, 10) ; FIELD ("bext", "origination_time", g.origination_time, me->bext.origination_time, 8) ;
			FIELD ("bext", "time_reference", &g.time_reference_low, &me->bext.time_reference_low, 8) ; FIELD ("bext", "version", &g.version, &me->bext.version, 2) ; FIELD ("bext", "umid", g.umid, me->bext.umid, 64) ;
			FIELD ("bext", "loudness", &g.loudness_value, &me->bext.loudness_value, 10) ;
			/* coding history: caller text with CR/LF line ends, a line break, then ONE generated line "A=PCM,F=<rate>,W=<bits>,M=<mode>,T=<library>" */
			crlf (want, sizeof (want), me->bext.coding_history) ; wl = strlen (want) ; if (wl > 0 && want [wl - 1] != '\n') { strcat (want, "\r\n") ; wl += 2 ; }
			if (strncmp (g.coding_history, want, wl)) vh_viol (vh_key ("C12|bext-field|coding_history|%s%s", fn, q), "coding history (%u bytes set) does not come back as the caller's text with CR/LF line ends", me->bext.coding_history_size) ;
			else
			{	const char *gen = g.coding_history + wl ; char pre [64] ; snprintf (pre, sizeof (pre), "A=PCM,F=%d,W=", me->rate) ;
				if (strncmp (gen, pre, strlen (pre)) || !strstr (gen, ",T=") || strchr (gen, '\n') != gen + strlen (gen) - 1) vh_viol (vh_key ("C12|bext-field|generated-history-line|%s%s", fn, q), "after the caller's %zu bytes the history continues with '%.60s'", wl, gen) ;
				}
			}
		}
	if (me->set [K_CART] && expect_stored && in_matrix (maj, K_CART, 0))
	{	static SF_CART_INFO_VAR (4400) g ; int rc ; memset (&g, 0, sizeof (g)) ; rc = sf_command (r, SFC_GET_CART_INFO, &g, sizeof (g)) ; vh_stat ("cart_checked", 1) ;
		if (me->setrc [K_CART] != SF_TRUE) vh_viol (vh_key ("C12|cart-set-refused|%s%s", fn, q), "SFC_SET_CART_INFO (size %d, tag text %u) before any audio returned %d", me->cart_size, me->cart.tag_text_size, me->setrc [K_CART]) ;
		else if (rc != SF_TRUE) vh_viol (vh_key ("C12|cart-lost|%s%s", fn, q), "cart set but SFC_GET_CART_INFO returns %d after re-open", rc) ;
		else
		{	FIELD ("cart", "version..user_def", g.version, me->cart.version, offsetof (SF_CART_INFO, level_reference)) ; FIELD ("cart", "level_reference", &g.level_reference, &me->cart.level_reference, 4) ;
			FIELD ("cart", "post_timers", g.post_timers, me->cart.post_timers, sizeof (g.post_timers)) ; FIELD ("cart", "url", g.url, me->cart.url, 1024) ;
			if (g.tag_text_size < me->cart.tag_text_size || g.tag_text_size > me->cart.tag_text_size + 4 || memcmp (g.tag_text, me->cart.tag_text, me->cart.tag_text_size)) vh_viol (vh_key ("C12|cart-field|tag_text|%s%s", fn, q), "tag text of %u bytes comes back with size %u%s", me->cart.tag_text_size, g.tag_text_size, g.tag_text_size >= me->cart.tag_text_size ? " and different content" : "") ;
			}
		}
	if (me->set [K_CUE] && expect_stored && in_matrix (maj, K_CUE, 0) && !(maj == SF_FORMAT_AIFF && inst_anywhere))
	{	static SF_CUES g ; uint32_t cnt = 0 ; int rc ; memset (&g, 0, sizeof (g)) ; sf_command (r, SFC_GET_CUE_COUNT, &cnt, sizeof (cnt)) ; rc = sf_command (r, SFC_GET_CUE, &g, sizeof (g)) ; vh_stat ("cues_checked", 1) ;
		if (me->cues.cue_count == 0) { if (rc == SF_TRUE && g.cue_count != 0) vh_viol (vh_key ("C12|cue-count|%s%s", fn, q), "0 cues set, %u returned", g.cue_count) ; }
		else if (me->setrc [K_CUE] != SF_TRUE) vh_viol (vh_key ("C12|cue-set-refused|%s%s", fn, q), "SFC_SET_CUE (%u cues) before any audio returned %d", me->cues.cue_count, me->setrc [K_CUE]) ;
		else if (rc != SF_TRUE || g.cue_count != me->cues.cue_count || cnt != me->cues.cue_count) vh_viol (vh_key ("C12|cue-count|%s%s", fn, q), "%u cues set, SFC_GET_CUE rc %d count %u, SFC_GET_CUE_COUNT %u", me->cues.cue_count, rc, g.cue_count, cnt) ;
		else for (i = 0 ; i < (int) g.cue_count ; i++)
		{	SF_CUE_POINT *a = &g.cue_points [i], *b = &me->cues.cue_points [i] ;
			if (a->indx != b->indx || a->sample_offset != b->sample_offset || (maj != SF_FORMAT_AIFF && (a->position != b->position || a->fcc_chunk != b->fcc_chunk || a->chunk_start != b->chunk_start || a->block_start != b->block_start)))
			{	vh_viol (vh_key ("C12|cue-field|%s%s", fn, q), "cue %d of %u: set (indx %d pos %u off %u), got (indx %d pos %u off %u)", i, g.cue_count, b->indx, b->position, b->sample_offset, a->indx, a->position, a->sample_offset) ; break ; }
			if (maj == SF_FORMAT_AIFF && strcmp (a->name, b->name)) { vh_viol (vh_key ("C12|cue-name|%s%s", fn, q), "cue %d name '%s' comes back as '%s'", i, b->name, a->name) ; break ; }
			}
		}
	if (me->set [K_INST] && expect_stored && in_matrix (maj, K_INST, 0))
	{	SF_INSTRUMENT g ; int rc ; memset (&g, 0, sizeof (g)) ; rc = sf_command (r, SFC_GET_INSTRUMENT, &g, sizeof (g)) ; vh_stat ("instrument_checked", 1) ;
		if (me->setrc [K_INST] != SF_TRUE) vh_viol (vh_key ("C12|instrument-set-refused|%s%s", fn, q), "SFC_SET_INSTRUMENT before any audio returned %d", me->setrc [K_INST]) ;
		else if (rc != SF_TRUE) vh_viol (vh_key ("C12|instrument-lost|%s%s", fn, q), "instrument set but SFC_GET_INSTRUMENT returns %d", rc) ;
		else
		{	if (g.basenote != me->inst.basenote || g.detune != me->inst.detune || g.loop_count != me->inst.loop_count) vh_viol (vh_key ("C12|instrument-field|%s%s%s", fn, q, (me->inst.detune < 0 && g.basenote == me->inst.basenote && g.loop_count == me->inst.loop_count) ? "|negative-detune" : ""), "basenote/detune/loop_count set %d/%d/%d got %d/%d/%d", me->inst.basenote, me->inst.detune, me->inst.loop_count, g.basenote, g.detune, g.loop_count) ;
			else for (i = 0 ; i < g.loop_count ; i++) if (g.loops [i].mode != me->inst.loops [i].mode || g.loops [i].start != me->inst.loops [i].start || g.loops [i].end != me->inst.loops [i].end || g.loops [i].count != me->inst.loops [i].count)
			{	vh_viol (vh_key ("C12|instrument-loop|%s%s", fn, q), "loop %d: set mode %d %u..%u x%u, got mode %d %u..%u x%u", i, me->inst.loops [i].mode, me->inst.loops [i].start, me->inst.loops [i].end, me->inst.loops [i].count, g.loops [i].mode, g.loops [i].start, g.loops [i].end, g.loops [i].count) ; break ; }
			}
		}
	if (me->set [K_CHMAP] && expect_stored && in_matrix (maj, K_CHMAP, 0) && me->setrc [K_CHMAP] == SF_TRUE)
	{	int g [16] ; int rc ; memset (g, 0, sizeof (g)) ; rc = sf_command (r, SFC_GET_CHANNEL_MAP_INFO, g, me->ch * sizeof (int)) ; vh_stat ("chanmap_checked", 1) ;
		if (rc != SF_TRUE) vh_viol (vh_key ("C12|chanmap-lost|%s%s", fn, q), "channel map accepted at set time but not returned after re-open (rc %d)", rc) ;
		else if (memcmp (g, me->chmap, me->ch * sizeof (int))) vh_viol (vh_key ("C12|chanmap-changed|%s%s", fn, q), "channel map [%d %d ...] comes back as [%d %d ...]", me->chmap [0], me->chmap [1], g [0], g [1]) ;
		}
}

static void run_case (int format, int ch, int mask, int late_mask, int order_seed)
{	int twice = 0 ;
	MEMF m ; SNDFILE *s ; SF_INFO ri ; static META me, lm ; const char *fn = vh_fname (format) ; int N = 1499 + (order_seed % 3), i, fp = vh_is_fp (format & SF_FORMAT_SUBMASK) ; short *audio = malloc (2 * N * ch), *back ; float *fb ; char q [48] ;
	char lq [48] = "" ;
	if (late_mask)
	{	static const char kc [] = "SBCQIM" ; char nw [8] = "", ag [8] = "" ; int a = 0, b = 0, i2 ;
		for (i2 = 0 ; i2 < K_N ; i2++) if (late_mask & (1 << i2)) { if (mask & (1 << i2)) ag [b++] = kc [i2] ; else nw [a++] = kc [i2] ; }
		nw [a] = 0 ; ag [b] = 0 ; snprintf (lq, sizeof (lq), "|late-new:%s|late-again:%s", nw, ag) ; }
	snprintf (q, sizeof (q), "%s%s", (format & SF_FORMAT_ENDMASK) == SF_ENDIAN_BIG ? (((mask | late_mask) & 12) ? "|BE+cue-or-cart" : "|BE") : "", late_mask ? "|with-late-items" : "") ;
	for (i = 0 ; i < N * ch ; i++) audio [i] = (short) (i * 31 + 7) ;
	if ((format & SF_FORMAT_SUBMASK) == SF_FORMAT_ULAW) for (i = 0 ; i < N * ch ; i++) audio [i] = (short) ref_ulaw_dec ((unsigned) (i * 31 + 7) & 0xff) ;	/* values u-law represents exactly */
	gen_meta (&me, format, ch, mask) ; gen_meta (&lm, format, ch, late_mask) ;
	memset (&m, 0, sizeof (m)) ;
	s = vh_open_w (&m, format, ch, 44100, NULL) ; if (!s) { free (audio) ; return ; }
	if (order_seed % 4 == 1 && mask)		/* every item is first set with OTHER contents: the later call before any audio must win */
	{	static META pre ; int t2 ; gen_meta (&pre, format, ch, mask) ;
		for (t2 = SF_STR_FIRST ; t2 <= SF_STR_LAST ; t2++) { pre.strset [t2] = me.strset [t2] ; if (pre.strset [t2] && !pre.str [t2][0]) rnd_text (pre.str [t2], 9, 0) ; }		/* the same string types, other texts */
		apply_meta (s, &pre, order_seed + 7) ; vh_stat ("cases_with_items_set_twice", 1) ; twice = 1 ; }
	apply_meta (s, &me, order_seed) ;
	if (sf_writef_short (s, audio, N) != N) { vh_viol (vh_key ("C12|audio-write|%s%s", fn, q), "audio write failed after setting metadata: %s", sf_strerror (s)) ; sf_close (s) ; goto out ; }
	if (late_mask) apply_meta (s, &lm, order_seed + 1) ;		/* too late: may be refused or ignored, must not damage anything */
	vh_check_inv (s, "metadata + audio") ;
	if (sf_close (s)) vh_viol (vh_key ("C12|close|%s%s", fn, q), "sf_close failed") ;
	s = vh_open_r (&m, format, ch, 44100, &ri) ;
	if (!s) { vh_viol (vh_key ("C12|reopen-failed|%s%s|mask%d", fn, q, mask), "items %d, late items %d: %s", mask, late_mask, sf_strerror (NULL)) ; goto out ; }
	back = vh_guard_alloc (2 * (N + 4) * ch, 0) ; fb = malloc (4 * (N + 4) * ch) ;
	{	sf_count_t g = fp ? sf_readf_float (s, fb, N + 4) : sf_readf_short (s, back, N + 4) ; if (fp) for (i = 0 ; i < N * ch ; i++) back [i] = (short) fb [i] ;
		if (g == N + 1 && (vh_bits (format) == 8 || vh_is_g711 (format & SF_FORMAT_SUBMASK)) && ch == 1 && (N & 1)) { g = N ; vh_stat ("pad_frame_of_an_odd_one_byte_stream", 1) ; }	/* see C04: a container may pad an odd byte count */
		if (g != N || memcmp (back, audio, 2 * N * ch)) vh_viol (vh_key ("C12|audio-damaged|%s%s%s", fn, q, lq), "items %d, late items %d: %lld frames read (wrote %d)%s", mask, late_mask, (long long) g, N, g == N ? ", data differs" : "") ;
		else vh_stat ("audio_intact", 1) ; }
	free (back) ; free (fb) ;
	check_meta (s, &me, fn, q, 1, late_mask) ;
	/* strings set for the FIRST time after the audio: the RIFF and AIFF writers keep such strings in a chunk behind the audio; when sf_set_string reported success
	** the outcome is recorded in the evidence (kept / changed / lost) */
	if ((late_mask & (1 << K_STR)) && !(mask & (1 << K_STR)) && late_mask == (1 << K_STR))
	{	int maj = format & SF_FORMAT_TYPEMASK, t ;
		if ((maj == SF_FORMAT_WAV || maj == SF_FORMAT_WAVEX || maj == SF_FORMAT_RF64 || maj == SF_FORMAT_AIFF) && !(format & SF_FORMAT_ENDMASK))
			for (t = SF_STR_FIRST ; t <= SF_STR_LAST ; t++) if (lm.strset [t] && lm.strrc [t] == 0 && in_matrix (maj, K_STR, t) && t != SF_STR_SOFTWARE)
			{	const char *g = sf_get_string (s, t) ; vh_stat ("late_strings_checked", 1) ;
				/* observed, not judged: the property lets an item that is set too late be "reported as failure or ignored" */
				vh_statf (1, "late_string_%s:%s-data-bytes", (g && !strcmp (g, lm.str [t])) ? "kept" : g ? "changed" : "lost", ((long) N * ch * (vh_bits (format) / 8)) & 1 ? "odd" : "even") ;
				}
		}
	vh_check_inv (s, "metadata queries") ;
	sf_close (s) ;
out :
	free (audio) ; mv_free (&m) ;
}

/* Channel-map census: AIFF and CAF store a channel map as a layout tag, so only the layouts of the library's table can be stored; SFC_SET_CHANNEL_MAP_INFO
** says which (SF_TRUE).  Every tuple over the position codes is offered for 1-4 channels, and for 5-6 channels every tuple over the codes that occurred in an
** accepted smaller layout; each accepted layout is then written, closed, re-opened and must come back unchanged. */
static void chanmap_census (int format, int ch)
{	static int acc [4000][8] ; static unsigned char seen [64] ; int nacc = 0, idx [8], k, a, nalpha, alpha [64] ; MEMF pm ; SNDFILE *p ; const char *fn = vh_fname (format) ; long offered = 0 ;
	if (ch <= 4 || !seen [SF_CHANNEL_MAP_LEFT]) { nalpha = 0 ; for (a = 1 ; a < SF_CHANNEL_MAP_MAX ; a++) alpha [nalpha++] = a ; }
	else { nalpha = 0 ; for (a = 1 ; a < SF_CHANNEL_MAP_MAX ; a++) if (seen [a]) alpha [nalpha++] = a ; }
	memset (&pm, 0, sizeof (pm)) ; p = vh_open_w (&pm, format, ch, 44100, NULL) ; if (!p) return ;
	memset (idx, 0, sizeof (idx)) ;
	for (;;)
	{	int map [8] ; for (k = 0 ; k < ch ; k++) map [k] = alpha [idx [k]] ;
		offered++ ;
		if (sf_command (p, SFC_SET_CHANNEL_MAP_INFO, map, ch * (int) sizeof (int)) == SF_TRUE && nacc < 4000) { memcpy (acc [nacc++], map, sizeof (int) * ch) ; for (k = 0 ; k < ch ; k++) seen [map [k]] = 1 ; }
		for (k = ch - 1 ; k >= 0 ; k--) { if (++idx [k] < nalpha) break ; idx [k] = 0 ; }
		if (k < 0) break ;
		}
	sf_close (p) ; mv_free (&pm) ;
	vh_stat ("channel_maps_offered", offered) ; vh_stat ("channel_maps_accepted", nacc) ;
	for (a = 0 ; a < nacc ; a++)
	{	MEMF m ; SNDFILE *s ; SF_INFO ri ; short d [8 * 8] = { 0 } ; int got [8], rc ;
		memset (&m, 0, sizeof (m)) ; s = vh_open_w (&m, format, ch, 44100, NULL) ; if (!s) break ;
		rc = sf_command (s, SFC_SET_CHANNEL_MAP_INFO, acc [a], ch * (int) sizeof (int)) ; sf_writef_short (s, d, 8) ; sf_close (s) ;
		s = vh_open_r (&m, format, ch, 44100, &ri) ;
		if (!s) { vh_viol (vh_key ("C12|reopen-failed|%s|channel-map-census", fn), "ch=%d layout %d: %s", ch, a, sf_strerror (NULL)) ; mv_free (&m) ; continue ; }
		memset (got, 0, sizeof (got)) ;
		if (rc != SF_TRUE || sf_command (s, SFC_GET_CHANNEL_MAP_INFO, got, ch * (int) sizeof (int)) != SF_TRUE || memcmp (got, acc [a], sizeof (int) * ch))
			vh_viol (vh_key ("C12|chanmap-changed|%s|census|ch%d", fn, ch), "layout {%d,%d,%d,%d,%d,%d} was accepted (SF_TRUE), after re-open SFC_GET_CHANNEL_MAP_INFO gives {%d,%d,%d,%d,%d,%d}", acc [a][0], ch > 1 ? acc [a][1] : 0, ch > 2 ? acc [a][2] : 0, ch > 3 ? acc [a][3] : 0, ch > 4 ? acc [a][4] : 0, ch > 5 ? acc [a][5] : 0, got [0], got [1], got [2], got [3], got [4], got [5]) ;
		else vh_stat ("channel_map_layouts_round_tripped", 1) ;
		vh_distinct (vh_fnv (vh_fnv (0, acc [a], sizeof (int) * ch), &format, 4) ^ 0xC4A) ;
		sf_close (s) ; mv_free (&m) ;
		}
}

int main (int argc, char **argv)
{	static const int majors [] = { SF_FORMAT_WAV, SF_FORMAT_WAVEX, SF_FORMAT_RF64, SF_FORMAT_AIFF, SF_FORMAT_CAF, SF_FORMAT_AU, SF_FORMAT_W64, SF_FORMAT_WAV | SF_ENDIAN_BIG } ;
	static const int subs [] = { SF_FORMAT_PCM_16, SF_FORMAT_FLOAT, SF_FORMAT_PCM_24, SF_FORMAT_ULAW } ;
	int a, b, c, k ;
	vh_init (argc, argv, "c12_metadata", "C12") ;
	for (a = 0 ; a < 8 ; a++) for (b = 0 ; b < (vh_thorough ? 4 : 3) ; b++) for (c = 1 ; c <= (vh_thorough ? 6 : 2) ; c++)
	{	int format = majors [a] | subs [b] ;
		if (!vh_accepts (format, c, 44100)) continue ;
		for (k = 0 ; k < (vh_thorough ? 15000 : 3000) ; k++)
		{	int mask, late ;
			if (!vh_case ("%s%s ch=%d combo=%d", vh_fname (format), (format & SF_FORMAT_ENDMASK) ? "/BE" : "", c, k)) continue ;
			mask = (k < 6) ? (1 << k) : (k < 12 ? 63 : 1 + vh_rint (63)) ; late = (k % 5 == 4) ? (1 << vh_rint (6)) : 0 ;	/* one kind is set after the audio (for the first time, or again) */
			if (k == 12) mask = 0 ;
			vh_distinct (vh_fnv (0, &format, 4) ^ ((uint64_t) c << 33) ^ ((uint64_t) mask << 40) ^ ((uint64_t) late << 48) ^ vh_rs) ;
			vh_statf (1, "fmt:%s", vh_fname (format)) ;
			if (k % 30 == 7) vh_sample ("%s ch=%d: items set before audio mask=0x%x (1 strings,2 bext,4 cart,8 cues,16 instrument,32 channel map) in shuffled order, items set after audio mask=0x%x", vh_fname (format), c, mask, late) ;
			run_case (format, c, mask, late, (int) (vh_rnd () & 0xffff)) ;
			}
		}
	{	static const int cf [] = { SF_FORMAT_CAF | SF_FORMAT_PCM_16, SF_FORMAT_AIFF | SF_FORMAT_PCM_16 } ; int g, ch ;
		/* one case per format: the census of the smaller channel counts feeds the alphabet of the larger ones, so the channel counts run inside the case */
		for (g = 0 ; g < 2 ; g++) if (vh_case ("%s channel-map census", vh_fname (cf [g])))
		{	vh_sample ("%s: every tuple of position codes offered as a channel map for 1-%d channels; each layout the library accepts is written, closed, re-opened and compared", vh_fname (cf [g]), vh_thorough ? 6 : 5) ;
			for (ch = 1 ; ch <= (vh_thorough ? 6 : 5) ; ch++) chanmap_census (cf [g], ch) ; }
		}
	return vh_finish () ;
}
