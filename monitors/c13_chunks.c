/* C13 — custom chunks: any number set, all retrievable, audio untouched.
** Oracle: after close and re-open every chunk set before the audio is found exactly once, in order, by full iteration and
** by id, with identical payload (size padded to the container's alignment); exact-size buffers under ASan for every
** sf_set_chunk / sf_get_chunk_data; invariant hook (used <= count) after every call; audio compared sample by sample.
*/
#include "vh.h"

#define MAXC 260
typedef struct { char id [8] ; int idlen ; unsigned len ; unsigned char *data ; int seen_full, seen_id ; } CH ;

static int reserved_pick ;
static void mkid (char *id, int scheme, int i)
{	static const char *reserved [] = { "fmt ", "LIST", "COMM", "bext", "PEAK", "fact", "cue ", "INST", "MARK", "chan", "info", "free", "APPL", "smpl", "cart", "NAME", "SSND", "data", "desc", "kuki" } ;
	switch (scheme)
	{	case 0 : snprintf (id, 8, "c%03d", i % 1000) ; break ;							/* distinct 4-char ids */
		case 1 : snprintf (id, 8, "dup%d", i % 3) ; break ;								/* duplicates */
		case 2 : { int l = 1 + i % 4 ; snprintf (id, 8, "%.*s", l, "q\0\0\0" "xy\0\0" "abc\0" "Test" + 4 * (l - 1)) ; if (l < 4) id [l] = 0 ; } break ;	/* 1..4 characters */
		case 3 : snprintf (id, 8, "%s", reserved [reserved_pick % 20]) ; (void) i ; break ;		/* ONE id the containers use themselves per case, so that the key names it */
		default : id [0] = 'A' + vh_rint (26) ; id [1] = 'a' + vh_rint (26) ; id [2] = '0' + vh_rint (10) ; id [3] = "_-+ "[vh_rint (3)] ; id [4] = 0 ; break ;
		}
}
static unsigned mklen (int scheme, int i)
{	static const unsigned fixed [] = { 0, 1, 2, 3, 4, 5, 7, 8, 255, 256, 1023, 4095 } ;
	switch (scheme) { case 0 : return fixed [i % 12] ; case 1 : return 1 + vh_rint (40) ; case 2 : return 13 ; case 3 : return (i % 17 == 0) ? 20000 + vh_rint (45537) : vh_rint (64) ; case 5 : return (unsigned) vh_rint (9) ; default : return vh_rint (300) ; } }

static char wlog [200] ; static int full_steps ;
static void run_case (int format, int ch, int n, int idscheme, int lenscheme, int mix, int late)
{	MEMF m ; SNDFILE *s ; SF_INFO ri ; CH *cs = calloc (n + 2, sizeof (CH)) ; const char *fn = vh_fname (format) ; int i, N = 777, rc, fp = vh_is_fp (format & SF_FORMAT_SUBMASK) ;
	char idqb [40] ; const char *idq ;
	reserved_pick = lenscheme == 5 ? (n * 4 + late + mix) : (int) (vh_case_idx / 7) ;		/* tiny payloads: the id follows from the case parameters so that every container meets every id */
	/* a reserved id with payloads of at most 8 bytes is its own class: the parsers that interpret such an id treat a body that short as "weird length" and step over it */
	{ char rid [8] ; mkid (rid, 3, 0) ; snprintf (idqb, sizeof (idqb), "|reserved-id:%s%s", rid, lenscheme == 5 ? "|payloads<=8" : "") ; }
	idq = idscheme == 3 ? idqb : idscheme == 2 ? "|ids-shorter-than-4" : "" ;
	long total = 0 ; short *audio = malloc (sizeof (short) * N * ch), *back ; const char *over ;
	memset (&m, 0, sizeof (m)) ;
	for (i = 0 ; i < N * ch ; i++) audio [i] = (short) (i * 37 + 11) ;
	s = vh_open_w (&m, format, ch, 44100, NULL) ;
	if (s == NULL) { free (cs) ; free (audio) ; return ; }
	if (mix & 1) sf_set_string (s, SF_STR_TITLE, "title before chunks") ;
	for (i = 0 ; i < n ; i++)
	{	SF_CHUNK_INFO ci ; unsigned l ; unsigned j ;
		memset (&ci, 0, sizeof (ci)) ;
		mkid (cs [i].id, idscheme, i) ; cs [i].idlen = (int) strlen (cs [i].id) ; l = cs [i].len = mklen (lenscheme, i) ; total += l + 8 ;
		cs [i].data = vh_guard_alloc (l, 0) ;											/* exact size: an over-read of the caller's payload is an ASan report */
		for (j = 0 ; j < l ; j++) cs [i].data [j] = (unsigned char) (vh_mix ((uint64_t) i * 70001 + j) >> 13) ;
		snprintf (ci.id, sizeof (ci.id), "%s", cs [i].id) ; ci.id_size = cs [i].idlen ; ci.datalen = l ; ci.data = cs [i].data ;
		rc = sf_set_chunk (s, &ci) ;
		vh_stat ("set_chunk_calls", 1) ;
		if (rc != 0) { vh_viol (vh_key ("C13|set-chunk-refused|%s", fn), "chunk %d of %d (id '%s', %u bytes) before audio: sf_set_chunk returned %d (%s)", i, n, cs [i].id, l, rc, sf_error_number (rc)) ; n = i ; break ; }
		if (vh_check_inv (s, "sf_set_chunk")) { n = i + 1 ; break ; }
		if ((mix & 2) && i == n / 2) sf_set_string (s, SF_STR_ARTIST, "artist between chunks") ;
		}
	{	sf_count_t wrote = sf_writef_short (s, audio, N) ;
		{	static char wl [16384] ; char *d ; wl [0] = 0 ; sf_command (s, SFC_GET_LOG_INFO, wl, sizeof (wl)) ; d = strstr (wl, "denied") ; wlog [0] = 0 ; if (d) { char *b = d ; while (b > wl && b [-1] != '\n') b-- ; snprintf (wlog, sizeof (wlog), " [writer log: %.100s]", b) ; if (strchr (wlog, '\n')) *strchr (wlog, '\n') = ']' ; } }
		/* the header cache refuses to grow once a single request needs more than 51200 bytes (2 x needed > 100 KiB): payload totals above 50 KB never fit;
		** between 44 KB and 50 KB of payload the per-chunk overhead and the container's own chunks decide, and the writer's log says whether the cap was hit */
		over = total > 50000 ? "|total>50KB" : (total > 44000 && wlog [0]) ? "|total>50KB-with-overhead" : "" ;
		if (wrote != N) vh_viol (vh_key ("C13|audio-write|%s%s", fn, over), "audio write failed after %d chunks: %s", n, sf_strerror (s)) ;
		}
	if (late)
	{	SF_CHUNK_INFO ci ; memset (&ci, 0, sizeof (ci)) ; snprintf (ci.id, sizeof (ci.id), "late") ; ci.id_size = 4 ; ci.datalen = 24 ; ci.data = "late chunk after audio!!" ;
		rc = sf_set_chunk (s, &ci) ; vh_stat (rc ? "late_chunk_refused" : "late_chunk_accepted", 1) ;
		if (late == 2) sf_writef_short (s, audio, 1) ;		/* and more audio afterwards (undone below) */
		}
	vh_check_inv (s, "audio") ;
	rc = sf_close (s) ; if (rc) vh_viol (vh_key ("C13|close|%s", fn), "sf_close returned %d", rc) ;

	s = vh_open_r (&m, format, ch, 44100, &ri) ;
	if (s == NULL)
	{	vh_viol (vh_key ("C13|reopen-failed|%s%s%s", fn, over, idq), "%d chunks (id scheme %d, %ld payload bytes): %s%s", n, idscheme, total, sf_strerror (NULL), wlog) ; goto done ; }
	/* audio */
	back = vh_guard_alloc (sizeof (short) * (N + 2) * ch, 0) ;
	{	sf_count_t g = sf_readf_short (s, back, N + 2) ; int expN = N + (late == 2) ;
		if (fp) { /* float files read as short are unscaled: compare through float instead */
			float *fb = malloc (sizeof (float) * (N + 2) * ch) ; sf_seek (s, 0, SEEK_SET) ; g = sf_readf_float (s, fb, N + 2) ; for (i = 0 ; i < N * ch && i < g * ch ; i++) back [i] = (short) lrintf (fb [i]) ; free (fb) ; }
		if (g != expN || memcmp (back, audio, sizeof (short) * N * ch))
			vh_viol (vh_key ("C13|audio-damaged|%s%s%s%s", fn, late ? "|chunk-set-after-audio" : "", over, idq), "%d chunks, late=%d: %ld frames read (expected %d), data %s", n, late, (long) g, expN, g == expN ? "differs" : "n/a") ;
		else vh_stat ("audio_intact", 1) ;
		}
	free (back) ;
	if ((mix & 1) && (!sf_get_string (s, SF_STR_TITLE) || strcmp (sf_get_string (s, SF_STR_TITLE), "title before chunks")))
		vh_viol (vh_key ("C13|string-lost|%s%s%s", fn, over, idq), "title string set before the chunks came back as '%s'", sf_get_string (s, SF_STR_TITLE) ? sf_get_string (s, SF_STR_TITLE) : "(null)") ;
	/* full iteration */
	{	SF_CHUNK_ITERATOR *it = sf_get_chunk_iterator (s, NULL) ; int steps = 0, next = 0, limit = n + 80 ;
		full_steps = -1 ;
		while (it != NULL && steps <= limit)
		{	SF_CHUNK_INFO ci ; memset (&ci, 0, sizeof (ci)) ; steps++ ;
			rc = sf_get_chunk_size (it, &ci) ;
			if (rc == 0 && ci.datalen < 70000000)
			{	unsigned char *buf = vh_guard_alloc (ci.datalen, 0xEE) ; ci.data = buf ;
				if (ci.datalen > 0 || 1) rc = sf_get_chunk_data (it, &ci) ;
				vh_stat ("chunks_iterated", 1) ;
				/* is this the next expected custom chunk? (standard chunks of the container are skipped) */
				if (next < n && rc == 0 && !strncmp (ci.id, cs [next].id, 4) && (int) strnlen (ci.id, 5) >= cs [next].idlen && ci.datalen >= cs [next].len && ci.datalen <= cs [next].len + 3 && !memcmp (buf, cs [next].data, cs [next].len))
				{	unsigned j ; for (j = cs [next].len ; j < ci.datalen ; j++) if (buf [j] != 0) vh_viol (vh_key ("C13|padding-not-zero|%s", fn), "chunk %d id '%s': pad byte %u is 0x%02x", next, cs [next].id, j, buf [j]) ;
					cs [next].seen_full++ ; next++ ; }
				free (buf) ;
				}
			it = sf_next_chunk_iterator (it) ;
			}
		if (steps <= limit) full_steps = steps ;
		if (steps > limit) vh_viol (vh_key ("C13|iterator-does-not-terminate|%s", fn), "full iteration still going after %d steps for %d stored chunks", steps, n) ;
		else if (next != n) vh_viol (vh_key ("C13|chunk-missing-in-full-iteration|%s%s%s", fn, over, idq), "%d chunks set, full iteration found the first %d in order (visited %d chunks in all); chunk %d is id '%s' len %u", n, next, steps, next, cs [next].id, cs [next].len) ;
		else vh_stat ("full_iterations_complete", 1) ;
		}
	/* by id: the iterator must visit exactly the chunks set under that id, in order */
	for (i = 0 ; i < n ; i++)
	{	int first = 1, j ; for (j = 0 ; j < i ; j++) if (!strcmp (cs [j].id, cs [i].id)) first = 0 ;
		if (!first) continue ;
		{	SF_CHUNK_INFO q ; SF_CHUNK_ITERATOR *it ; int steps = 0, want = i, found = 0, mine = 0, wrongid = 0 ;
			for (j = 0 ; j < n ; j++) if (!strcmp (cs [j].id, cs [i].id)) mine++ ;
			memset (&q, 0, sizeof (q)) ; snprintf (q.id, sizeof (q.id), "%s", cs [i].id) ; q.id_size = cs [i].idlen ;
			it = sf_get_chunk_iterator (s, &q) ;
			while (it != NULL && steps <= n + 80)
			{	SF_CHUNK_INFO ci ; memset (&ci, 0, sizeof (ci)) ; steps++ ;
				if (sf_get_chunk_size (it, &ci) == 0 && ci.datalen < 70000000)
				{	unsigned char *buf = vh_guard_alloc (ci.datalen, 0xEE) ; ci.data = buf ;
					int grc = sf_get_chunk_data (it, &ci) ;
					if (grc == 0 && strncmp (ci.id, cs [i].id, 4)) wrongid++ ;		/* the library reports the id of the chunk the iterator stands on */
					if (grc == 0 && want < n && ci.datalen >= cs [want].len && ci.datalen <= cs [want].len + 3 && !memcmp (buf, cs [want].data, cs [want].len))
					{	found++ ; cs [want].seen_id++ ; for (want++ ; want < n && strcmp (cs [want].id, cs [i].id) ; want++) ; }
					free (buf) ;
					/* short caller buffers: at most datalen bytes may be written */
					if (steps == 1 && ci.datalen > 1)
					{	unsigned k, lens [3] = { 0, 1, ci.datalen - 1 } ;
						for (k = 0 ; k < 3 ; k++)
						{	SF_CHUNK_INFO c2 ; unsigned char *sb = vh_guard_alloc (lens [k], 0xEE) ; memset (&c2, 0, sizeof (c2)) ; c2.datalen = lens [k] ; c2.data = sb ;
							sf_get_chunk_data (it, &c2) ; vh_stat ("short_buffer_gets", 1) ; free (sb) ; }
						}
					}
				it = sf_next_chunk_iterator (it) ;
				}
			if (steps > n + 80) vh_viol (vh_key ("C13|iterator-does-not-terminate|%s|by-id", fn), "iteration by id '%s' still going after %d steps", cs [i].id, steps) ;
			else if (found != mine) vh_viol (vh_key ("C13|chunk-missing-by-id|%s%s%s", fn, over, idq), "id '%s': %d chunks set, iteration by id matched %d (visited %d)", cs [i].id, mine, found, steps) ;
			else if (wrongid) vh_viol (vh_key ("C13|by-id-visits-other-ids|%s%s%s", fn, over, idq), "id '%s': iteration by id visited %d chunks, %d of them carry a different id (%d chunks set under it, %d found)", cs [i].id, steps, wrongid, mine, found) ;
			else vh_stat ("by_id_iterations_complete", 1) ;
			}
		}
	/* an id that was never set yields no iterator (or an empty iteration) */
	{	SF_CHUNK_INFO q ; SF_CHUNK_ITERATOR *it ; memset (&q, 0, sizeof (q)) ; snprintf (q.id, sizeof (q.id), "zZ9~") ; q.id_size = 4 ;
		it = sf_get_chunk_iterator (s, &q) ; if (it != NULL) vh_viol (vh_key ("C13|iterator-for-absent-id|%s", fn), "iterator returned for an id that is not in the file") ; }
	/* chunk queries in the middle of reading: the audio stream continues where it was (no seek in between) */
	if (n > 0 && !late && N > 40)
	{	SF_CHUNK_ITERATOR *it ; sf_count_t g1, g2 ; int bad = 0 ; float *fb = malloc (sizeof (float) * (N + 2) * ch) ; short *back = malloc (sizeof (short) * (N + 2) * ch) ;
		sf_seek (s, 0, SEEK_SET) ;
		g1 = fp ? sf_readf_float (s, fb, 17) : sf_readf_short (s, back, 17) ;
		{ SF_CHUNK_INFO q0 ; memset (&q0, 0, sizeof (q0)) ; snprintf (q0.id, sizeof (q0.id), "%s", cs [0].id) ; q0.id_size = cs [0].idlen ; (void) sf_get_chunk_iterator (s, &q0) ; }	/* an iteration by id that is left unfinished */
		it = sf_get_chunk_iterator (s, NULL) ;
		{	int visited = 0 ;
		while (it) { SF_CHUNK_INFO ci ; memset (&ci, 0, sizeof (ci)) ; visited++ ; if (sf_get_chunk_size (it, &ci) == 0 && ci.datalen < 70000000) { unsigned char *b = vh_guard_alloc (ci.datalen, 0xEE) ; ci.data = b ; sf_get_chunk_data (it, &ci) ; free (b) ; } it = sf_next_chunk_iterator (it) ; if (visited > n + 90) break ; }
		/* this full iteration comes after the by-id iterations above: it must see as many chunks as the first full iteration did */
		if (full_steps >= 0 && visited != full_steps) vh_viol (vh_key ("C13|full-iteration-after-by-id|%s%s%s", fn, over, idq), "a full iteration (NULL id) started after iterations by id visits %d chunks, the first full iteration visited %d", visited, full_steps) ;
		else vh_stat ("full_iterations_after_by_id_equal", 1) ;
		}
		g2 = fp ? sf_readf_float (s, fb + 17 * ch, N - 17) : sf_readf_short (s, back + 17 * ch, N - 17) ;
		if (fp) for (i = 0 ; i < N * ch ; i++) back [i] = (short) lrintf (fb [i]) ;
		if (g1 != 17 || g2 != N - 17) bad = 1 ; else if (memcmp (back, audio, sizeof (short) * N * ch)) bad = 2 ;
		if (bad) vh_viol (vh_key ("C13|chunk-query-disturbs-audio|%s%s%s", fn, over, idq), "17 frames read, all chunks fetched with sf_get_chunk_data, then the remaining %d frames read without a seek: got %ld + %ld frames%s", N - 17, (long) g1, (long) g2, bad == 2 ? ", data differs from what was written" : "") ;
		else vh_stat ("audio_continues_after_chunk_queries", 1) ;
		free (fb) ; free (back) ;
		}
	vh_check_inv (s, "iteration") ;
	sf_close (s) ;
done :
	for (i = 0 ; i < MAXC && cs [i].data ; i++) free (cs [i].data) ;
	free (cs) ; free (audio) ; mv_free (&m) ;
}

int main (int argc, char **argv)
{	static const int majors [] = { SF_FORMAT_WAV, SF_FORMAT_WAVEX, SF_FORMAT_RF64, SF_FORMAT_AIFF, SF_FORMAT_CAF } ;
	static const int subs [] = { SF_FORMAT_PCM_16, SF_FORMAT_FLOAT, SF_FORMAT_PCM_24 } ;
	static const int counts [] = { 0, 1, 2, 3, 5, 19, 20, 21, 22, 29, 30, 31, 32, 33, 45, 46, 47, 48, 49, 69, 70, 71, 72, 73, 104, 105, 106, 107, 108, 109, 110, 111, 150, 158, 159, 160, 161, 162, 163, 164, 165, 166, 167, 200 } ;
	int a, b, c, k, ids, ls ;
	vh_init (argc, argv, "c13_chunks", "C13") ;
	for (a = 0 ; a < 5 ; a++) for (b = 0 ; b < (vh_thorough ? 3 : 2) ; b++) for (c = 1 ; c <= 2 ; c++)
	{	int format = majors [a] | subs [b] ;
		if (!vh_accepts (format, c, 44100)) continue ;
		for (k = 0 ; k < (vh_thorough ? 221 : (int) (sizeof (counts) / sizeof (counts [0]))) ; k++) for (ids = 0 ; ids < 5 ; ids++)
		{	int reps = vh_thorough ? 20 : 16, r, cnt = vh_thorough ? k : counts [k] ;		/* thorough: every chunk count 0..220 */
			if (c == 2 && !vh_thorough && (k % 3)) continue ;
			for (r = 0 ; r < reps ; r++)
			{	if (!vh_case ("%s ch=%d chunks=%d ids=%d rep=%d", vh_fname (format), c, cnt, ids, r)) continue ;
				ls = (int) ((vh_case_idx + r) % 5) ;
				if (ids == 3 && r % 4 == 3) ls = 5 ;		/* reserved ids: a quarter of the repetitions with tiny payloads only */
				{	int mix = vh_rint (4), late = (vh_rint (5) == 0) ? 1 + vh_rint (2) : 0 ;
					if (cnt > 60 && ls == 0) ls = 1 ;			/* keep the header under the 100 KiB cache unless the case is about the cap */
					vh_distinct (vh_fnv (0, &format, 4) ^ ((uint64_t) c << 33) ^ ((uint64_t) cnt << 36) ^ ((uint64_t) ids << 46) ^ ((uint64_t) ls << 50) ^ ((uint64_t) mix << 54) ^ ((uint64_t) late << 58) ^ r) ;
					vh_statf (1, "fmt:%s", vh_fname (format)) ;
					vh_sample ("%s ch=%d: %d chunks, id scheme %d (0 distinct,1 duplicates,2 1-4 chars,3 reserved,4 random), length scheme %d, strings mixed in=%d, chunk set after audio=%d", vh_fname (format), c, cnt, ids, ls, mix, late) ;
					run_case (format, c, cnt, ids, ls, mix, late) ;
					}
				}
			}
		}
	return vh_finish () ;
}
