/* C14 — path, descriptor, virtual-I/O and embedded access give identical results.
** Oracle: differential.  The same bytes are opened through every route and must give the same SF_INFO, samples (four
** types), strings and open outcome; the same write script through path / descriptor / virtual I/O must produce identical
** bytes; an embedded write must append after the existing container content, leave that content alone and equal the
** stand-alone file; after sf_close the descriptor is closed exactly when close_desc was true and no other descriptor changed.
*/
#include "vh.h"
#include "foreign.h"
#include <dirent.h>
#include <sys/wait.h>
#include <sys/time.h>

/* the clock is pinned (link-time --wrap) so that date/PEAK fields written through different routes are comparable */
time_t __wrap_time (time_t *t) { if (t) *t = 1700000000 ; return 1700000000 ; }
int __wrap_gettimeofday (struct timeval *tv, void *tz) { (void) tz ; if (tv) { tv->tv_sec = 1700000000 ; tv->tv_usec = 99 ; } return 0 ; }

static char scratch [300] ;
static int fd_list (int *out, int max) { DIR *d = opendir ("/proc/self/fd") ; struct dirent *e ; int n = 0, self ; if (!d) return -1 ; self = dirfd (d) ; while ((e = readdir (d)) && n < max) { int v = atoi (e->d_name) ; if (e->d_name [0] >= '0' && e->d_name [0] <= '9' && v != self) out [n++] = v ; } closedir (d) ; return n ; }
static int same_fds (const int *a, int na, const int *b, int nb) { int i, j ; if (na != nb) return 0 ; for (i = 0 ; i < na ; i++) { for (j = 0 ; j < nb ; j++) if (a [i] == b [j]) break ; if (j == nb) return 0 ; } return 1 ; }
static void put_file (const char *p, const void *a, long na, const void *b, long nb, const void *c, long nc) { FILE *f = fopen (p, "wb") ; if (!f) return ; if (na) fwrite (a, 1, na, f) ; if (nb) fwrite (b, 1, nb, f) ; if (nc) fwrite (c, 1, nc, f) ; fclose (f) ; }
static long slurp (const char *p, unsigned char **out) { FILE *f = fopen (p, "rb") ; long n ; *out = NULL ; if (!f) return -1 ; fseek (f, 0, SEEK_END) ; n = ftell (f) ; fseek (f, 0, SEEK_SET) ; *out = malloc (n + 1) ; if (fread (*out, 1, n, f) != (size_t) n) n = -1 ; fclose (f) ; return n ; }

typedef struct { int opened, err ; SF_INFO si ; uint64_t data [T_N] ; long got [T_N] ; uint64_t strs, probes ; } OBS ;

static void observe (SNDFILE *s, const SF_INFO *si, OBS *o, int is_pipe, int frames_cap)
{	int t, k ; o->opened = 1 ; o->si = *si ; o->strs = 0 ;
	for (k = SF_STR_FIRST ; k <= SF_STR_LAST ; k++) { const char *g = sf_get_string (s, k) ; if (g) o->strs = vh_fnv (o->strs ? o->strs : 1, g, strlen (g) + 1) ; }
	for (t = 0 ; t < T_N ; t++)
	{	long n = frames_cap ; void *buf = calloc ((size_t) n * si->channels + 8, 8) ; sf_count_t g ;
		if (!is_pipe && t > 0) sf_seek (s, 0, SEEK_SET) ;
		if (is_pipe && t > 0) { o->got [t] = -1 ; free (buf) ; continue ; }		/* a pipe is read once */
		g = vh_read_t (s, t, 1, buf, (sf_count_t) n * si->channels, si->channels) ; o->got [t] = (long) g ; o->data [t] = vh_fnv (0, buf, (size_t) (g > 0 ? g : 0) * vh_tsize [t]) ; free (buf) ;
		}
	/* seek probes (every whence), positions derived from the frame count only so that every route performs the same ones */
	if (!is_pipe && si->seekable && si->frames > 20 && si->frames < 100000000)
	{	short sb [16 * 64] ; uint64_t h = 7, x = (uint64_t) si->frames * 2654435761u + 12345 ; int j ;
		for (j = 0 ; j < 6 && si->channels <= 64 ; j++)
		{	sf_count_t F = si->frames, pos, r, g ; x = vh_mix (x + j) ; pos = (sf_count_t) (x % (uint64_t) F) ;
			if (j % 3 == 0) r = sf_seek (s, pos, SEEK_SET) ; else if (j % 3 == 1) r = sf_seek (s, pos - F, SEEK_END) ; else { sf_count_t cur = sf_seek (s, 0, SEEK_CUR) ; r = sf_seek (s, pos - cur, SEEK_CUR) ; }
			g = sf_readf_short (s, sb, 16) ;
			h = vh_fnv (h, &r, sizeof (r)) ; h = vh_fnv (h, &g, sizeof (g)) ; if (g > 0) h = vh_fnv (h, sb, (size_t) g * si->channels * 2) ;
			}
		o->probes = h ; vh_stat ("seek_probes", 6) ;
		}
}
static void cmp_obs (const char *fn, const char *route, const OBS *ref, const OBS *o, int pipe, int embedded)
{	int t ;
	if (ref->opened != o->opened) { vh_viol (vh_key ("C14|open-outcome|%s|%s", fn, route), "virtual I/O %s (err %d), route %s %s (err %d)", ref->opened ? "opens" : "fails", ref->err, route, o->opened ? "opens" : "fails", o->err) ; return ; }
	if (!o->opened) { if (!pipe && !embedded && ref->err != o->err) vh_viol (vh_key ("C14|error-code|%s|%s", fn, route), "the same bytes are rejected with error %d through virtual I/O and %d through %s", ref->err, o->err, route) ; return ; }
	if (ref->si.channels != o->si.channels || ref->si.samplerate != o->si.samplerate || ref->si.format != o->si.format || ref->si.sections != o->si.sections || (!pipe && ref->si.frames != o->si.frames) || (!pipe && ref->si.seekable != o->si.seekable))
		vh_viol (vh_key ("C14|sf-info|%s|%s", fn, route), "SF_INFO differs: frames %lld/%lld rate %d/%d ch %d/%d format 0x%x/0x%x sections %d/%d seekable %d/%d (virtual I/O / %s)", (long long) ref->si.frames, (long long) o->si.frames, ref->si.samplerate, o->si.samplerate, ref->si.channels, o->si.channels, ref->si.format, o->si.format, ref->si.sections, o->si.sections, ref->si.seekable, o->si.seekable, route) ;
	for (t = 0 ; t < T_N ; t++) if (o->got [t] >= 0 && (ref->got [t] != o->got [t] || ref->data [t] != o->data [t])) { vh_viol (vh_key ("C14|samples|%s|%s", fn, route), "%s read: %ld items via virtual I/O, %ld via %s%s", vh_tname [t], ref->got [t], o->got [t], route, ref->got [t] == o->got [t] ? " (data differs)" : "") ; break ; }
	if (!pipe && ref->probes != o->probes) vh_viol (vh_key ("C14|seek-probes|%s|%s", fn, route), "6 seeks (SET/END/CUR) to positions derived from the frame count, each followed by a 16-frame read, give different results via virtual I/O and %s", route) ;
	if (pipe == 2) return ;		/* a foreign file through a pipe: the property promises the samples, and metadata behind the audio data cannot be reached without seeking */
	if (ref->strs != o->strs) vh_viol (vh_key ("C14|strings|%s|%s", fn, route), "string metadata differs between virtual I/O and %s", route) ;
}

static void routes_of (MEMF *pm, const char *fn, int format, int ch, int variant, int N) ;
static void read_routes (int format, int ch, int variant)
{	MEMF m ; SNDFILE *s ; const char *fn = vh_fname (format) ; int maj = format & SF_FORMAT_TYPEMASK, N = 1800 + vh_rint (700), i ;
	short *d = malloc (2 * N * ch) ;
	for (i = 0 ; i < N * ch ; i++) d [i] = (short) (12000 * sin (i * 0.03) + (i * 7) % 300) ;
	memset (&m, 0, sizeof (m)) ; s = vh_open_w (&m, format, ch, 8000, NULL) ; if (!s) { free (d) ; return ; }
	if (variant & 1) { sf_set_string (s, SF_STR_TITLE, "route title") ; sf_set_string (s, SF_STR_COMMENT, "route comment") ; }
	sf_writef_short (s, d, N) ; sf_close (s) ; free (d) ;
	if (variant & 2)
	{	/* a skippable chunk larger than the header cache (and than the 16 KiB skip buffer) in front of the audio data: spliced in by the harness,
		** because the library's own writer cannot produce chunks that large */
		const char *mk = (maj == SF_FORMAT_AIFF) ? "SSND" : "data" ; unsigned char *at = memmem (m.d, m.len < 4000 ? m.len : 4000, mk, 4) ;
		if (at && (maj == SF_FORMAT_WAV || maj == SF_FORMAT_WAVEX || maj == SF_FORMAT_AIFF))
		{	long n = 52000 + vh_rint (30000), off = at - m.d, k ; int big = (maj == SF_FORMAT_AIFF) || !memcmp (m.d, "RIFX", 4) ; unsigned char *nd ; uint32_t tot ;
			n += n & 1 ; nd = malloc (m.len + n + 16) ; memcpy (nd, m.d, off) ; memcpy (nd + off, "JUNK", 4) ;
			if (big) { nd [off + 4] = n >> 24 ; nd [off + 5] = n >> 16 ; nd [off + 6] = n >> 8 ; nd [off + 7] = n ; } else { nd [off + 7] = n >> 24 ; nd [off + 6] = n >> 16 ; nd [off + 5] = n >> 8 ; nd [off + 4] = n ; }
			for (k = 0 ; k < n ; k++) nd [off + 8 + k] = (unsigned char) (k * 7) ;
			memcpy (nd + off + 8 + n, m.d + off, m.len - off) ;
			tot = big ? ((uint32_t) nd [4] << 24 | nd [5] << 16 | nd [6] << 8 | nd [7]) : ((uint32_t) nd [7] << 24 | nd [6] << 16 | nd [5] << 8 | nd [4]) ; tot += (uint32_t) (n + 8) ;
			if (big) { nd [4] = tot >> 24 ; nd [5] = tot >> 16 ; nd [6] = tot >> 8 ; nd [7] = tot ; } else { nd [7] = tot >> 24 ; nd [6] = tot >> 16 ; nd [5] = tot >> 8 ; nd [4] = tot ; }
			free (m.d) ; m.d = nd ; m.len += n + 8 ; m.cap = m.len ; vh_stat ("files_with_big_chunk", 1) ;
			}
		}
	if (variant & 4) m.len = m.len > 200 ? m.len - 1 - vh_rint (150) : m.len ;		/* truncated tail: every route must agree on the outcome */
	if (variant & 8) { long p = vh_rint ((int) (m.len < 120 ? m.len : 120)) ; m.d [p] ^= 0x55 ; }		/* damaged header byte */
	routes_of (&m, fn, format, ch, variant, N) ;
	mv_free (&m) ;
}
/* one file image through every route; format/ch are only used for header-less files (and, for library-written files, to decide which routes apply) */
static void routes_of (MEMF *pm, const char *fn, int format, int ch, int variant, int N)
{	MEMF m = *pm ; SNDFILE *s ; SF_INFO si ; int maj = format & SF_FORMAT_TYPEMASK, i, cap ; OBS ref, o ; char path [400] ; int raw = maj == SF_FORMAT_RAW ; static unsigned char junk [5000] ;
	for (i = 0 ; i < 5000 ; i++) junk [i] = (unsigned char) (i * 131 + 17) ;
	cap = N + 50 ;
	/* reference: virtual I/O */
	memset (&ref, 0, sizeof (ref)) ; memset (&si, 0, sizeof (si)) ; if (raw) { si.format = format ; si.channels = ch ; si.samplerate = 8000 ; } m.pos = 0 ;
	{	int vb [256], va [256], nvb = fd_list (vb, 256), nva ;
	s = sf_open_virtual (&MVIO, SFM_READ, &si, &m) ; if (s) { if (si.channels < 1 || si.channels > 64) { sf_close (s) ; return ; } observe (s, &si, &ref, 0, cap) ; sf_close (s) ; } else ref.err = sf_error (NULL) ;
	if (variant & 16) { if (ref.opened) { format = ref.si.format ; maj = format & SF_FORMAT_TYPEMASK ; if (maj == SF_FORMAT_WAVEX) maj = SF_FORMAT_WAV ; } else maj = 0 ; }		/* a foreign file: the routes that apply follow from what it turned out to be */
	nva = fd_list (va, 256) ; if (!same_fds (vb, nvb, va, nva)) vh_viol (vh_key ("C14|fd-table|virtual-io|%s", fn), "the set of open descriptors changed across sf_open_virtual / sf_close (the virtual route owns no descriptor)") ; }
	vh_stat ("files", 1) ;
	snprintf (path, sizeof (path), "%s/r_%d.dat", scratch, (int) getpid ()) ;
	/* path */
	put_file (path, m.d, (long) m.len, NULL, 0, NULL, 0) ;
	memset (&o, 0, sizeof (o)) ; memset (&si, 0, sizeof (si)) ; if (raw) { si.format = format ; si.channels = ch ; si.samplerate = 8000 ; }
	s = sf_open (path, SFM_READ, &si) ; if (s) { observe (s, &si, &o, 0, cap) ; sf_close (s) ; } else o.err = sf_error (NULL) ; cmp_obs (fn, "path", &ref, &o, 0, 0) ; vh_stat ("route_comparisons", 1) ;
	/* descriptor, close_desc 0 and 1 */
	for (i = 0 ; i < 2 ; i++)
	{	int fd = open (path, O_RDONLY), before [256], after [256], nb, na, closed ; if (fd < 0) continue ;
		nb = fd_list (before, 256) ;
		memset (&o, 0, sizeof (o)) ; memset (&si, 0, sizeof (si)) ; if (raw) { si.format = format ; si.channels = ch ; si.samplerate = 8000 ; }
		s = sf_open_fd (fd, SFM_READ, &si, i) ; if (s) { observe (s, &si, &o, 0, cap) ; sf_close (s) ; } else o.err = sf_error (NULL) ;
		cmp_obs (fn, i ? "fd(close_desc=1)" : "fd(close_desc=0)", &ref, &o, 0, 0) ; vh_stat ("route_comparisons", 1) ;
		closed = (fcntl (fd, F_GETFD) == -1) ; na = fd_list (after, 256) ;
		if (s && closed != i) vh_viol (vh_key ("C14|close-desc|%s", i ? "true-but-left-open" : "false-but-closed"), "%s: sf_open_fd (close_desc=%d): descriptor is %s after sf_close", fn, i, closed ? "closed" : "open") ;
		if (!s && closed && !i) vh_viol ("C14|close-desc|failed-open-closed-callers-descriptor", "%s: sf_open_fd failed (close_desc=0) and closed the caller's descriptor", fn) ;
		if (!closed) { close (fd) ; na = fd_list (after, 256) ; { int k, j = 0 ; for (k = 0 ; k < nb ; k++) if (before [k] != fd) before [j++] = before [k] ; nb = j ; } }
		else { int k, j = 0 ; for (k = 0 ; k < nb ; k++) if (before [k] != fd) before [j++] = before [k] ; nb = j ; }
		if (!same_fds (before, nb, after, na)) vh_viol (vh_key ("C14|fd-table|%s", fn), "the set of open descriptors changed across sf_open_fd/sf_close (other than the one passed in)") ;
		vh_stat ("close_desc_checks", 1) ;
		}
	/* the descriptor NUMBER must not matter: the same file on descriptor 0 (a process that closed stdin), close_desc 1 and 0 */
	if (!(variant & 12)) for (i = 0 ; i < 2 ; i++)
	{	int saved = dup (0), fd, closed ; if (saved < 0) break ;
		close (0) ; fd = open (path, O_RDONLY) ;
		if (fd != 0) { if (fd >= 0) close (fd) ; dup2 (saved, 0) ; close (saved) ; break ; }
		memset (&o, 0, sizeof (o)) ; memset (&si, 0, sizeof (si)) ; if (raw) { si.format = format ; si.channels = ch ; si.samplerate = 8000 ; }
		s = sf_open_fd (0, SFM_READ, &si, i) ; if (s) { observe (s, &si, &o, 0, cap) ; sf_close (s) ; } else o.err = sf_error (NULL) ;
		closed = (fcntl (0, F_GETFD) == -1) ;
		if (!closed) close (0) ;
		dup2 (saved, 0) ; close (saved) ;
		cmp_obs (fn, i ? "fd0(close_desc=1)" : "fd0(close_desc=0)", &ref, &o, 0, 0) ; vh_stat ("route_comparisons", 1) ; vh_stat ("descriptor_0_opens", 1) ;
		if (s && closed != i) vh_viol (vh_key ("C14|close-desc|fd0|%s", i ? "true-but-left-open" : "false-but-closed"), "%s: sf_open_fd (0, close_desc=%d): descriptor 0 is %s after sf_close", fn, i, closed ? "closed" : "open") ;
		}
	/* embedded at offset k (containers that support it) */
	if ((maj == SF_FORMAT_WAV || maj == SF_FORMAT_WAVEX || maj == SF_FORMAT_AIFF || maj == SF_FORMAT_AU) && !(variant & (12 | 64)))	/* a damaged or truncated file has no well-defined extent inside a larger file */
	{	int offs [5] = { 1, 7, 4096, 2 + vh_rint (4900), 2 + vh_rint (4900) } ; int k ;
		for (k = 0 ; k < (vh_thorough ? 5 : 3) ; k++)
		{	int fd ; SF_EMBED_FILE_INFO ei ; if (k & 1) put_file (path, junk, offs [k], m.d, (long) m.len, m.d, m.len < 777 ? (long) m.len : 777) ; else put_file (path, junk, offs [k], m.d, (long) m.len, junk + 100, 777) ;		/* followed by noise, or by the start of another sound file of the same kind */
			fd = open (path, O_RDONLY) ; if (fd < 0) continue ; lseek (fd, offs [k], SEEK_SET) ;
			memset (&o, 0, sizeof (o)) ; memset (&si, 0, sizeof (si)) ;
			s = sf_open_fd (fd, SFM_READ, &si, 0) ;
			if (s) { memset (&ei, 0, sizeof (ei)) ; sf_command (s, SFC_GET_EMBED_FILE_INFO, &ei, sizeof (ei)) ; if (ei.offset != offs [k]) vh_viol (vh_key ("C14|embed-info|%s", fn), "embedded at %d, SFC_GET_EMBED_FILE_INFO reports offset %lld", offs [k], (long long) ei.offset) ; observe (s, &si, &o, 0, cap) ; sf_close (s) ; } else o.err = sf_error (NULL) ;
			cmp_obs (fn, "fd-embedded", &ref, &o, 0, 1) ; vh_stat ("route_comparisons", 1) ; close (fd) ;
			}
		}
	/* non-seekable pipe: WAV, AIFF, AU with sample-granular encodings must deliver the same samples */
	if ((maj == SF_FORMAT_WAV || maj == SF_FORMAT_AIFF || maj == SF_FORMAT_AU) && vh_sample_granular (format) && !(variant & (12 | 32)) && ref.opened && m.len < 900000)
	{	int pfd [2] ; if (pipe (pfd) == 0)
		{	fcntl (pfd [1], 1031, 1 << 20) ;
			if (write (pfd [1], m.d, m.len) == m.len)
			{	close (pfd [1]) ; memset (&o, 0, sizeof (o)) ; memset (&si, 0, sizeof (si)) ;
				s = sf_open_fd (pfd [0], SFM_READ, &si, 0) ; if (s) { if (si.channels == ref.si.channels) observe (s, &si, &o, 1, (int) (ref.got [0] / ref.si.channels)) ; else { o.opened = 1 ; o.si = si ; } sf_close (s) ; } else o.err = sf_error (NULL) ;
				cmp_obs (fn, "pipe", &ref, &o, (variant & 16) ? 2 : 1, 0) ; vh_stat ("route_comparisons", 1) ; vh_stat ("pipe_reads", 1) ;
				} else close (pfd [1]) ;
			close (pfd [0]) ;
			}
		}
	unlink (path) ;
}

static void write_script (SNDFILE *s, int ch, int seed)
{	static short d [4096] ; int i, k ; uint64_t sv = vh_rs ; vh_srand (seed) ;
	sf_set_string (s, SF_STR_ARTIST, "route writer") ;
	for (k = 0 ; k < 5 ; k++) { int fr = 1 + vh_rint (4000 / ch - 1) ; for (i = 0 ; i < fr * ch ; i++) d [i] = (short) (9000 * sin ((i + k * 50) * 0.05)) ; sf_writef_short (s, d, fr) ; if (k == 2) sf_command (s, SFC_UPDATE_HEADER_NOW, NULL, 0) ; }
	vh_rs = sv ;
}
static void write_routes (int format, int ch)
{	MEMF m ; SNDFILE *s ; SF_INFO si ; const char *fn = vh_fname (format) ; int maj = format & SF_FORMAT_TYPEMASK, seed = (int) (vh_rnd () & 0xffff), fd ; unsigned char *pb = NULL, *fb = NULL ; long pl, fl ; char path [400], path2 [400] ;
	int names = (maj == SF_FORMAT_SVX || maj == SF_FORMAT_MPC2K) ;
	snprintf (path, sizeof (path), "%s/w_%d.dat", scratch, (int) getpid ()) ; snprintf (path2, sizeof (path2), "%s/wf_%d.dat", scratch, (int) getpid ()) ;
	memset (&m, 0, sizeof (m)) ; s = vh_open_w (&m, format, ch, 8000, NULL) ; if (!s) return ; write_script (s, ch, seed) ; sf_close (s) ;
	memset (&si, 0, sizeof (si)) ; si.format = format ; si.channels = ch ; si.samplerate = 8000 ; s = sf_open (path, SFM_WRITE, &si) ; if (s) { write_script (s, ch, seed) ; sf_close (s) ; } pl = slurp (path, &pb) ;
	fd = open (path2, O_RDWR | O_CREAT | O_TRUNC, 0600) ; memset (&si, 0, sizeof (si)) ; si.format = format ; si.channels = ch ; si.samplerate = 8000 ; s = fd >= 0 ? sf_open_fd (fd, SFM_WRITE, &si, 1) : NULL ; if (s) { write_script (s, ch, seed) ; sf_close (s) ; } else if (fd >= 0) close (fd) ; fl = slurp (path2, &fb) ;
	vh_stat ("write_route_triples", 1) ;
	if (!names)
	{	if (pl != (long) m.len || (pl > 0 && memcmp (pb, m.d, pl))) vh_viol (vh_key ("C14|written-bytes|%s|path-vs-vio", fn), "the same write script produced %ld bytes by path and %ld through virtual I/O%s", pl, (long) m.len, pl == (long) m.len ? " with different content" : "") ;
		if (fl != (long) m.len || (fl > 0 && memcmp (fb, m.d, fl))) vh_viol (vh_key ("C14|written-bytes|%s|fd-vs-vio", fn), "the same write script produced %ld bytes by descriptor and %ld through virtual I/O%s", fl, (long) m.len, fl == (long) m.len ? " with different content" : "") ;
		}
	else if (fl != (long) m.len || (fl > 0 && memcmp (fb, m.d, fl))) vh_viol (vh_key ("C14|written-bytes|%s|fd-vs-vio", fn), "descriptor and virtual I/O (neither has a file name to record) produced different bytes: %ld / %ld", fl, (long) m.len) ;	/* the path route records the file name: not compared */
	/* embedded write: the new file is appended after the existing container content, which stays untouched */
	if ((maj == SF_FORMAT_WAV || maj == SF_FORMAT_WAVEX || maj == SF_FORMAT_AIFF || maj == SF_FORMAT_AU) && pl > 0)
	{	static unsigned char junk [4000] ; unsigned char *cb = NULL ; long cl, i, lead = 64 + vh_rint (100), trail = 1000 + vh_rint (2500) ; SF_EMBED_FILE_INFO ei ;
		for (i = 0 ; i < 4000 ; i++) junk [i] = (unsigned char) (i * 37 + 5) ;
		put_file (path2, junk, lead, junk + 500, trail, NULL, 0) ;
		fd = open (path2, O_RDWR) ; if (fd >= 0)
		{	lseek (fd, lead, SEEK_SET) ; memset (&si, 0, sizeof (si)) ; si.format = format ; si.channels = ch ; si.samplerate = 8000 ;
			s = sf_open_fd (fd, SFM_WRITE, &si, 0) ;
			if (s)
			{	memset (&ei, 0, sizeof (ei)) ; sf_command (s, SFC_GET_EMBED_FILE_INFO, &ei, sizeof (ei)) ; write_script (s, ch, seed) ; sf_close (s) ; vh_stat ("embedded_writes", 1) ;
				cl = slurp (path2, &cb) ;
				if (cl < lead + trail || memcmp (cb, junk, lead) || memcmp (cb + lead, junk + 500, trail)) vh_viol (vh_key ("C14|embedded-write-damages-container|%s", fn), "the %ld+%ld bytes that were in the container before the embedded write are no longer intact (container now %ld bytes)", lead, trail, cl) ;
				else if (cl - lead - trail != pl || memcmp (cb + lead + trail, pb, pl)) vh_viol (vh_key ("C14|embedded-write-bytes|%s", fn), "the embedded file (%ld bytes after the old content) differs from the same file written by path (%ld bytes)", cl - lead - trail, pl) ;
				if (ei.offset != lead + trail) vh_viol (vh_key ("C14|embedded-write-offset|%s", fn), "container held %ld bytes, SFC_GET_EMBED_FILE_INFO reports the embedded file at offset %lld", lead + trail, (long long) ei.offset) ;
				free (cb) ;
				}
			close (fd) ;
			}
		}
	free (pb) ; free (fb) ; unlink (path) ; unlink (path2) ; mv_free (&m) ;
}

/* opens that sf_open_fd must refuse: whatever the reason, a descriptor passed with close_desc = 0 still belongs to the caller */
static void refused_fd_opens (void)
{	static const char *what [] = { "SD2 for write", "SD2 for read", "unwritable format", "garbage for read", "empty for read", "bad mode", "CAF at offset 7", "zero channels", "W64 at offset 3 for write", "SD2 for rdwr" } ;
	char path [400] ; int k, cd ; snprintf (path, sizeof (path), "%s/refused_%d.dat", scratch, (int) getpid ()) ;
	for (k = 0 ; k < 10 ; k++) for (cd = 0 ; cd < 2 ; cd++)
	{	int fd, mode = SFM_READ, before [256], after [256], nb, na, closed, j, i ; SF_INFO si ; SNDFILE *s ; memset (&si, 0, sizeof (si)) ;
		put_file (path, "this is certainly not a sound file, just text that is long enough to be looked at by every detector", k == 4 ? 0 : 96, NULL, 0, NULL, 0) ;
		fd = open (path, O_RDWR) ; if (fd < 0) continue ;
		switch (k)
		{	case 0 : mode = SFM_WRITE ; si.format = SF_FORMAT_SD2 | SF_FORMAT_PCM_16 ; si.channels = 2 ; si.samplerate = 8000 ; break ;
			case 1 : mode = SFM_READ ; si.format = SF_FORMAT_SD2 | SF_FORMAT_PCM_16 ; break ;
			case 2 : mode = SFM_WRITE ; si.format = SF_FORMAT_WAV | SF_FORMAT_DWVW_12 ; si.channels = 1 ; si.samplerate = 8000 ; break ;
			case 3 : case 4 : mode = SFM_READ ; break ;
			case 5 : mode = 0x999 ; break ;
			case 6 : { MEMF m ; if (vh_make_file (&m, SF_FORMAT_CAF | SF_FORMAT_PCM_16, 1, 8000, 50, 1) == 0) { close (fd) ; put_file (path, "1234567", 7, m.d, (long) m.len, NULL, 0) ; fd = open (path, O_RDWR) ; lseek (fd, 7, SEEK_SET) ; } mv_free (&m) ; mode = SFM_READ ; } break ;
			case 7 : mode = SFM_WRITE ; si.format = SF_FORMAT_WAV | SF_FORMAT_PCM_16 ; si.channels = 0 ; si.samplerate = 8000 ; break ;
			case 8 : mode = SFM_WRITE ; lseek (fd, 3, SEEK_SET) ; si.format = SF_FORMAT_W64 | SF_FORMAT_PCM_16 ; si.channels = 1 ; si.samplerate = 8000 ; break ;
			default : mode = SFM_RDWR ; si.format = SF_FORMAT_SD2 | SF_FORMAT_PCM_16 ; si.channels = 2 ; si.samplerate = 8000 ; break ;
			}
		nb = fd_list (before, 256) ;
		s = sf_open_fd (fd, mode, &si, cd) ;
		vh_stat ("refused_fd_opens_tried", 1) ;
		if (s) { vh_statf (1, "refused_fd_open_accepted:%s", what [k]) ; sf_close (s) ; if (fcntl (fd, F_GETFD) != -1) close (fd) ; continue ; }
		closed = (fcntl (fd, F_GETFD) == -1) ; na = fd_list (after, 256) ;
		if (!cd && closed) vh_viol (vh_key ("C14|close-desc|failed-open-closed-callers-descriptor|%s", what [k]), "sf_open_fd (%s, close_desc=0) failed (%s) and closed the caller's descriptor", what [k], sf_strerror (NULL)) ;
		else vh_stat (cd ? (closed ? "refused_open_close_desc_1_closed" : "refused_open_close_desc_1_left_open") : "refused_open_close_desc_0_left_open", 1) ;
		if (sf_error (NULL) == 0) vh_viol (vh_key ("C14|refused-fd-open-no-error|%s", what [k]), "sf_open_fd returned NULL but sf_error (NULL) is 0") ;
		for (i = 0, j = 0 ; i < nb ; i++) if (before [i] != fd) before [j++] = before [i] ; nb = j ;
		for (i = 0, j = 0 ; i < na ; i++) if (after [i] != fd) after [j++] = after [i] ; na = j ;
		if (!same_fds (before, nb, after, na)) vh_viol (vh_key ("C14|fd-table|refused-open|%s", what [k]), "the set of open descriptors (other than the one passed in) changed across a refused sf_open_fd") ;
		if (!closed) close (fd) ;
		}
	unlink (path) ;
}

/* very small files embedded at an offset, with little or nothing behind them: the same bytes must open the same way as a stand-alone file */
static void tiny_embedded (int format, int ch)
{	static const int Ns [] = { 0, 1, 8, 19 }, offs [] = { 37, 64 }, trail [] = { 0, 5, 100 } ; int a, b, c ; const char *fn = vh_fname (format) ; char path [400] ; static unsigned char junk [200] ;
	snprintf (path, sizeof (path), "%s/tiny_%d.dat", scratch, (int) getpid ()) ; for (a = 0 ; a < 200 ; a++) junk [a] = (unsigned char) (a * 29 + 3) ;
	for (a = 0 ; a < 4 ; a++)
	{	MEMF m ; SNDFILE *s ; SF_INFO si ; OBS ref, o ; short d [64] ; int i ; for (i = 0 ; i < 64 ; i++) d [i] = (short) (i * 400 - 9000) ;
		memset (&m, 0, sizeof (m)) ; s = vh_open_w (&m, format, ch, 8000, NULL) ; if (!s) return ; if (Ns [a]) sf_writef_short (s, d, Ns [a]) ; sf_close (s) ;
		memset (&ref, 0, sizeof (ref)) ; memset (&si, 0, sizeof (si)) ; m.pos = 0 ; s = sf_open_virtual (&MVIO, SFM_READ, &si, &m) ; if (s) { observe (s, &si, &ref, 0, 80) ; sf_close (s) ; } else ref.err = sf_error (NULL) ;
		for (b = 0 ; b < 2 ; b++) for (c = 0 ; c < 3 ; c++)
		{	int fd ; put_file (path, junk, offs [b], m.d, (long) m.len, junk + 50, trail [c]) ;
			fd = open (path, O_RDONLY) ; if (fd < 0) continue ; lseek (fd, offs [b], SEEK_SET) ;
			memset (&o, 0, sizeof (o)) ; memset (&si, 0, sizeof (si)) ; s = sf_open_fd (fd, SFM_READ, &si, 0) ; if (s) { observe (s, &si, &o, 0, 80) ; sf_close (s) ; } else o.err = sf_error (NULL) ;
			close (fd) ; vh_stat ("tiny_embedded_opens", 1) ;
			if (ref.opened != o.opened) vh_viol (vh_key ("C14|open-outcome|%s|fd-embedded|tiny-file", fn), "%d frames (%ld bytes) at offset %d with %d bytes behind: stand-alone %s (err %d), embedded %s (err %d: %s)", Ns [a], (long) m.len, offs [b], trail [c], ref.opened ? "opens" : "fails", ref.err, o.opened ? "opens" : "fails", o.err, o.opened ? "" : sf_strerror (NULL)) ;
			else if (o.opened && (ref.si.frames != o.si.frames || ref.got [0] != o.got [0] || ref.data [0] != o.data [0]) && trail [c] == 0) vh_viol (vh_key ("C14|samples|%s|fd-embedded|tiny-file", fn), "%d frames at offset %d: frames %lld/%lld, items read %ld/%ld", Ns [a], offs [b], (long long) ref.si.frames, (long long) o.si.frames, ref.got [0], o.got [0]) ;
			}
		mv_free (&m) ;
		}
	unlink (path) ;
}

int main (int argc, char **argv)
{	int f, c, v, rep ; const char *sd ;
	vh_init (argc, argv, "c14_routes", "C14") ;
	vh_enum_formats () ;
	sd = getenv ("VERIF_SCRATCH_DIR") ; snprintf (scratch, sizeof (scratch), "%s/c14_%d", sd ? sd : ".", (int) getpid ()) ; mkdir (scratch, 0700) ;
	if (vh_case ("opens that sf_open_fd refuses, close_desc 0 and 1")) { vh_distinct (0xFD0) ; vh_sample ("10 kinds of refused sf_open_fd (SD2 in every mode, unwritable format, garbage, empty, bad mode, embedding in CAF/W64, zero channels) x close_desc 0/1: the caller's descriptor must stay open when close_desc = 0") ; refused_fd_opens () ; }
	for (f = 0 ; f < vh_nfmts ; f++) for (c = 1 ; c <= (vh_thorough ? 4 : 2) ; c++)
	{	int format = vh_fmts [f].format ;
		if (vh_fmts [f].major == SF_FORMAT_SD2 || !vh_accepts (format, c, 8000)) continue ;
		for (rep = 0 ; rep < (vh_thorough ? 48 : 8) ; rep++) for (v = 0 ; v < 16 ; v++)
		{	int variant = v ;
			if ((variant & 2) && !(vh_fmts [f].major == SF_FORMAT_WAV || vh_fmts [f].major == SF_FORMAT_AIFF || vh_fmts [f].major == SF_FORMAT_CAF || vh_fmts [f].major == SF_FORMAT_RF64 || vh_fmts [f].major == SF_FORMAT_WAVEX)) continue ;
			if (rep > 0 && !(variant & 12) && !vh_thorough) continue ;		/* quick: only the truncated / damaged variants (random cut point and byte) are repeated */
			if (!vh_case ("%s ch=%d read routes variant=%d rep=%d", vh_fname (format), c, variant, rep)) continue ;
			vh_distinct (vh_fnv (0, &format, 4) ^ ((uint64_t) c << 33) ^ ((uint64_t) variant << 40) ^ vh_rs) ; vh_statf (1, "fmt:%s", vh_fname (format)) ;
			if (v == 1) vh_sample ("%s ch=%d: one generated file (variant bits: 1 strings, 2 60 KB chunk before the audio, 4 truncated tail, 8 damaged header byte) read via virtual I/O, path, fd close_desc 0/1, fd at offsets 1/7/4096 inside junk, pipe", vh_fname (format), c) ;
			read_routes (format, c, variant) ;
			}
		if ((vh_fmts [f].major == SF_FORMAT_WAV || vh_fmts [f].major == SF_FORMAT_WAVEX || vh_fmts [f].major == SF_FORMAT_AIFF || vh_fmts [f].major == SF_FORMAT_AU) && vh_sample_granular (format) && c == 1 && vh_case ("%s tiny embedded files", vh_fname (format))) { vh_distinct (vh_fnv (0, &format, 4) ^ 0x7171) ; tiny_embedded (format, 1) ; }
		for (rep = 0 ; rep < (vh_thorough ? 24 : 8) ; rep++) if (vh_case ("%s ch=%d write routes rep=%d", vh_fname (format), c, rep)) { vh_distinct (vh_fnv (0, &format, 4) ^ ((uint64_t) c << 33) ^ 0x77 ^ vh_rs) ; write_routes (format, c) ; }
		}
	/* files as other programs write them (harness/foreign.h): whole, and truncated / with one damaged byte */
	for (f = 0 ; f < foreign_count () ; f++) for (v = 0 ; v < (vh_thorough ? 40 : 6) ; v++)
	{	unsigned char *fd_ = NULL ; long fl = 0 ; const char *nm = foreign_make (f, &fd_, &fl) ; MEMF m ; char fnb [96] ; int variant = 16 | (v == 0 ? 0 : (v & 1) ? 4 : 8) | ((foreign_limits (f) & 1) ? 32 : 0) | ((foreign_limits (f) & 2) ? 64 : 0) ;
		if (!vh_case ("foreign file %s read routes variant=%d rep=%d", nm, variant, v)) { free (fd_) ; continue ; }
		vh_distinct (vh_fnv (0, nm, strlen (nm)) ^ ((uint64_t) variant << 40) ^ (v ? vh_rs : 0)) ; vh_stat ("foreign_files", 1) ;
		if (v == 0) vh_sample ("foreign file %s (%ld bytes): via virtual I/O, path, fd close_desc 0/1, descriptor 0, embedded at offsets followed by noise or by another sound file, pipe; then truncated and damaged copies", nm, fl) ;
		memset (&m, 0, sizeof (m)) ; m.d = fd_ ; m.len = fl ; m.cap = fl ;
		if (variant & 4) m.len = m.len > 200 ? m.len - 1 - vh_rint (150) : m.len ;
		if (variant & 8) { long p = vh_rint ((int) (m.len < 200 ? m.len : 200)) ; m.d [p] ^= 0x55 ; }
		snprintf (fnb, sizeof (fnb), "foreign:%s", nm) ;
		routes_of (&m, fnb, 0, 1, variant, 1100) ;
		free (fd_) ;
		}
	rmdir (scratch) ;
	return vh_finish () ;
}
