/* C15 — I/O failures at any point are contained.
** For a workload on a (format, caller type) the fault-free run is executed once to count its I/O callbacks K; then the SAME
** workload is re-run with a fault injected at callback i for EVERY i in 1..K, for every fault kind inside the SF_VIRTUAL_IO
** contract {0 bytes, half the bytes, seek fails, length too large, length too small, tell off by 7}, single-shot and
** persistent from i on.  Oracles: every call returns (callback budget = logical clock), return values inside their
** documented range, positions (read-only hook) advance by exactly the returned count, no sanitizer report, sf_close /
** a failing sf_open release all heap memory and descriptors (accounting as in C16).
** Descriptor route: /dev/full (ENOSPC), a descriptor closed behind the library's back (EBADF), EINTR and EIO injected
** with link-time wrappers around read()/write().
*/
#include "vh.h"
#include "foreign.h"
#include <dirent.h>

extern ssize_t __real_read (int fd, void *buf, size_t n) ;
extern ssize_t __real_write (int fd, const void *buf, size_t n) ;
static long os_calls, os_fault_at ; static int os_errno, os_target_fd = -1 ;
ssize_t __wrap_read (int fd, void *buf, size_t n) { if (fd == os_target_fd && os_fault_at > 0 && ++os_calls >= os_fault_at) { if (os_errno == EINTR && os_calls > os_fault_at + 2) return __real_read (fd, buf, n) ; errno = os_errno ; return -1 ; } return __real_read (fd, buf, n) ; }
ssize_t __wrap_write (int fd, const void *buf, size_t n) { if (fd == os_target_fd && os_fault_at > 0 && ++os_calls >= os_fault_at) { if (os_errno == EINTR && os_calls > os_fault_at + 2) return __real_write (fd, buf, n) ; errno = os_errno ; return -1 ; } return __real_write (fd, buf, n) ; }

static int count_fds (void) { DIR *dp = opendir ("/proc/self/fd") ; int n = 0 ; if (!dp) return -1 ; while (readdir (dp)) n++ ; closedir (dp) ; return n ; }

enum { WL_WRITE, WL_READ, WL_RDWR } ;
static const char *wlname [] = { "write-close", "open-read-seek-close", "rdwr" } ;
static const char *kname [] = { "none", "zero-bytes", "half-bytes", "seek-fails", "length+1000", "length/2", "tell+7" } ;

static MEMF store ;				/* pre-reserved: the harness allocates nothing during a run */
static const char *cur_fn ; static int cur_wl, cur_t ;
static char keyq [160] ;

static void chk_count (SNDFILE *s, const char *what, sf_count_t r, sf_count_t req, int ch, int is_read, const SF_VERIF_STATE *b)
{	SF_VERIF_STATE a ; vh_state (s, &a) ;
	if (r < 0 || r > req) vh_viol (vh_key ("C15|return-range|%s|%s|%s", what, cur_fn, keyq), "%s asked %lld returned %lld", what, (long long) req, (long long) r) ;
	else
	{	sf_count_t d = is_read ? a.read_current - b->read_current : a.write_current - b->write_current ;
		if (d != r / ch) vh_viol (vh_key ("C15|position-vs-count|%s|%s|%s", what, cur_fn, keyq), "%s returned %lld items (%lld frames) but the %s position moved by %lld", what, (long long) r, (long long) (r / ch), is_read ? "read" : "write", (long long) d) ;
		}
	vh_check_inv (s, what) ;
}

/* one run of a workload; returns the number of callbacks performed */
static long g_fault2 ; static int g_kind2 ;	/* second single-shot fault (thorough tier), 0 = none */
static long run_workload (int format, int ch, int wl, int t, const MEMF *base, long fault_at, int kind, int persist)
{	SF_INFO si ; SNDFILE *s ; size_t h0 ; int f0 ; SF_VERIF_STATE st ; long calls ; sf_count_t wr_dataoffset = 0 ; int fired_by_update = 0, fired_in_update = 0 ; long wdone0 = 0 ; int ts = vh_tsize [t], i ; static double buf [4096] ; sf_count_t r ;
	memset (&si, 0, sizeof (si)) ;
	free (store.snap) ; store.snap = NULL ; store.snap_len = 0 ; store.snap_want = (wl == WL_WRITE && fault_at > 0) ;
	store.pos = 0 ; store.ncalls = 0 ; store.fired = 0 ; store.nwrite_done = 0 ; store.snap_wdone = 0 ; store.fault_at = fault_at ; store.fault_kind = kind ; store.fault_persist = persist ; store.fault_at2 = g_fault2 ; store.fault_kind2 = g_kind2 ; store.budget = 300000 ;	/* the fault-free workloads need a few hundred callbacks */
	if (wl == WL_WRITE) { store.len = 0 ; si.format = format ; si.channels = ch ; si.samplerate = 8000 ; }
	else { store.len = base->len ; memcpy (store.d, base->d, base->len) ; if ((format & SF_FORMAT_TYPEMASK) == SF_FORMAT_RAW) { si.format = format ; si.channels = ch ; si.samplerate = 8000 ; } }
	for (i = 0 ; i < 4096 ; i++) switch (t) { case T_SHORT : ((short *) buf) [i] = (short) (i * 13) ; break ; case T_INT : ((int *) buf) [i] = i * 500000 ; break ; case T_FLOAT : ((float *) buf) [i] = 0.001f * (i % 900) ; break ; default : buf [i] = 0.001 * (i % 900) ; }
	h0 = vh_heap_bytes () ; f0 = count_fds () ;
	s = sf_open_virtual (&MVIO, wl == WL_WRITE ? SFM_WRITE : wl == WL_READ ? SFM_READ : SFM_RDWR, &si, &store) ;
	if (s == NULL)
	{	if (fault_at == 0) { store.budget = 0 ; return -1 ; }
		if (sf_error (NULL) == 0) vh_viol (vh_key ("C15|open-fails-without-error|%s|%s", cur_fn, keyq), "sf_open returned NULL with sf_error 0") ;
		vh_stat ("opens_failed_under_fault", 1) ;
		}
	else
	{	int nitems = (2048 / ch) * ch ; (void) ts ;
		if (wl != WL_WRITE && (si.channels < 1 || si.channels > 7)) { sf_close (s) ; vh_stat ("header_damaged_by_fault_other_channel_count", 1) ; goto accounted ; }	/* the faulted header parse produced another channel count: the caller buffers below are sized for <= 7 */
		if (wl != WL_WRITE) ch = si.channels ;
		if (wl == WL_WRITE)
		{	vh_state (s, &st) ; wr_dataoffset = st.dataoffset ;
			sf_set_string (s, SF_STR_TITLE, "title") ;
			for (i = 0 ; i < 3 ; i++) { vh_state (s, &st) ; r = vh_write_t (s, t, i & 1, buf, i == 1 ? nitems + ch * 1500 / ch : nitems / 4 / ch * ch + ch, ch) ; chk_count (s, "write", r, i == 1 ? nitems + ch * 1500 / ch : nitems / 4 / ch * ch + ch, ch, 0, &st) ; }
			wdone0 = store.nwrite_done ; { long f0c = store.fired ; sf_command (s, SFC_UPDATE_HEADER_NOW, NULL, 0) ; fired_in_update = (f0c == 0 && store.fired > 0) ; } fired_by_update = store.snap != NULL && store.snap_wdone <= wdone0 ;
			vh_state (s, &st) ; r = vh_write_t (s, t, 0, buf, ch * 7, ch) ; chk_count (s, "write", r, ch * 7, ch, 0, &st) ;
			vh_state (s, &st) ; if (st.dataoffset > wr_dataoffset) wr_dataoffset = st.dataoffset ;
			sf_close (s) ; s = NULL ;
			/* "data the I/O layer accepted before the failure is not corrupted by later calls", for every encoding: this workload only appends, so the audio bytes that were in
			** the store when the fault fired - all but a margin for the one block a codec may still have been filling - must still be there, unchanged, in the finished file */
			if (store.snap && store.fired && fault_at > 0 && !persist && g_fault2 == 0 && wr_dataoffset > 0 && !vh_is_alac (format))		/* ALAC stages its packets in a temporary file: the main file only receives them at close */
			{	/* the margin: until the first write callback of the header update has stored its data no codec has flushed a partly filled block (that happens in the
				** header update and at close), so everything in the store is final except the bytes a bit-packing codec is still filling; later the store may end in a
				** padded block that is legitimately rewritten */
				sf_count_t lo = wr_dataoffset, hi = store.snap_len - (fired_by_update ? 8 : 2048), q ;
				vh_stat (fired_by_update ? "frozen_prefixes_with_8_byte_margin" : "frozen_prefixes_with_2048_byte_margin", 1) ;
				if (hi > lo)
				{	vh_stat ("frozen_prefixes_compared", 1) ; vh_stat ("frozen_prefix_bytes", (long) (hi - lo)) ;
					if (store.len < hi) vh_viol (vh_key ("C15|accepted-data-lost|%s|%s", cur_fn, keyq), "single-shot fault at callback %ld: %lld bytes were in the store when it fired, the finished file has %lld", fault_at, (long long) store.snap_len, (long long) store.len) ;
					else for (q = lo ; q < hi ; q++) if (store.d [q] != store.snap [q])
					{	vh_viol (vh_key ("C15|accepted-data-corrupted|%s|%s|append-only|%s", cur_fn, keyq, fired_in_update ? "fault-inside-header-update" : "fault-outside-header-update"), "single-shot fault at callback %ld (%s): byte %lld of the file (audio data starts at %lld; %lld bytes were in the store when the fault fired) changed from 0x%02x to 0x%02x although the workload only appends", fault_at, kname [kind], (long long) q, (long long) lo, (long long) store.snap_len, store.snap [q], store.d [q]) ; break ; }
					}
				}
			}
		else if (wl == WL_READ)
		{	for (i = 0 ; i < 2 ; i++) { vh_state (s, &st) ; r = vh_read_t (s, t, i & 1, buf, (300 / ch + 1) * ch, ch) ; chk_count (s, "read", r, (300 / ch + 1) * ch, ch, 1, &st) ; }
			r = sf_seek (s, 100, SEEK_SET) ; if (r != -1 && r < 0) vh_viol (vh_key ("C15|seek-return|%s|%s", cur_fn, keyq), "sf_seek returned %lld", (long long) r) ;
			vh_state (s, &st) ; if (st.read_current < 0) vh_viol (vh_key ("C15|negative-position|%s|%s", cur_fn, keyq), "read position %lld after a seek that returned %lld", (long long) st.read_current, (long long) r) ;
			r = vh_read_t (s, t, 1, buf, (500 / ch + 1) * ch, ch) ; chk_count (s, "read", r, (500 / ch + 1) * ch, ch, 1, &st) ;
			r = sf_seek (s, -10, SEEK_END) ; vh_state (s, &st) ; r = vh_read_t (s, t, 0, buf, 40 * ch, ch) ; chk_count (s, "read", r, 40 * ch, ch, 1, &st) ;
			sf_get_string (s, SF_STR_TITLE) ;
			}
		else
		{	/* "data the I/O layer accepted before the failure is not corrupted by later calls": a model image of the audio is kept for the lossless 16-bit cases
			** (base file, then every write applied at the position the library itself reports, with the count it returned) and compared with the finished file */
			int model = (t == T_SHORT && vh_is_lossless_int (format) && vh_sample_granular (format) && (format & SF_FORMAT_TYPEMASK) != SF_FORMAT_PAF && (format & SF_FORMAT_TYPEMASK) != SF_FORMAT_SDS && vh_bits (format) >= 16 && fault_at > 0 && !persist && (kind == VF_ZERO || kind == VF_SHORT || kind == VF_SEEKFAIL) && g_fault2 == 0) ;
			static short img [8192], wrsnap [2048] ; long imgF = 0, q ; int fired_in_write = 0, fired_in_seek = 0 ;
			if (model) { SF_INFO bi ; MEMF bm = *base ; SNDFILE *b ; memset (&bi, 0, sizeof (bi)) ; bm.pos = 0 ; bm.fault_at = 0 ; bm.budget = 0 ; b = sf_open_virtual (&MVIO, SFM_READ, &bi, &bm) ; if (b && bi.frames * ch + 200 * ch < 8192) { imgF = (long) sf_readf_short (b, img, bi.frames) ; sf_close (b) ; } else { if (b) sf_close (b) ; model = 0 ; } }
			vh_state (s, &st) ; r = vh_read_t (s, t, 0, buf, 50 * ch, ch) ; chk_count (s, "read", r, 50 * ch, ch, 1, &st) ;
			{ long f0c = store.fired ; sf_seek (s, 10, SEEK_SET | SFM_WRITE) ; if (store.fired != f0c) fired_in_seek = 1 ; } vh_state (s, &st) ; { long f0c = store.fired ; memcpy (wrsnap, buf, sizeof (wrsnap)) ; r = vh_write_t (s, t, 1, buf, 30 * ch, ch) ; if (store.fired != f0c) fired_in_write = 1 ; } chk_count (s, "write", r, 30 * ch, ch, 0, &st) ;
			if (model && r > 0 && st.write_current >= 0 && (st.write_current + r / ch) * ch < 8192) { memcpy (img + st.write_current * ch, wrsnap, (size_t) r * 2) ; if (st.write_current + r / ch > imgF) imgF = (long) (st.write_current + r / ch) ; }
			vh_state (s, &st) ; r = vh_read_t (s, t, 1, buf, 20 * ch, ch) ; chk_count (s, "read", r, 20 * ch, ch, 1, &st) ;
			{ long f0c = store.fired ; sf_seek (s, 0, (cur_t & 1) ? SEEK_END : (SEEK_END | SFM_WRITE)) ; if (store.fired != f0c) fired_in_seek = 1 ; } vh_state (s, &st) ; { long f0c = store.fired ; memcpy (wrsnap, buf, sizeof (wrsnap)) ; r = vh_write_t (s, t, 0, buf, 64 * ch, ch) ; if (store.fired != f0c) fired_in_write = 1 ; } chk_count (s, "write", r, 64 * ch, ch, 0, &st) ;
			if (model && r > 0 && st.write_current >= 0 && (st.write_current + r / ch) * ch < 8192) { memcpy (img + st.write_current * ch, wrsnap, (size_t) r * 2) ; if (st.write_current + r / ch > imgF) imgF = (long) (st.write_current + r / ch) ; }
			{ long f0c = store.fired ; sf_seek (s, 5, SEEK_SET | SFM_READ) ; if (store.fired != f0c) fired_in_seek = 1 ; } vh_state (s, &st) ; r = vh_read_t (s, t, 1, buf, 20 * ch, ch) ; chk_count (s, "read", r, 20 * ch, ch, 1, &st) ;
			sf_close (s) ; s = NULL ;
			if (model && store.fired && fired_in_seek && !fired_in_write)		/* judged only when the single fault hit one of the sf_seek calls: a fault during open, a write or the close changes what the library knows about the file */
			{	SF_INFO ri ; SNDFILE *rd ; static short got [8192] ; long F ; MEMF fm = store ; fm.pos = 0 ; fm.fault_at = 0 ; fm.fault_at2 = 0 ; fm.budget = 0 ; memset (&ri, 0, sizeof (ri)) ;
				rd = sf_open_virtual (&MVIO, SFM_READ, &ri, &fm) ;
				if (rd && ri.channels == ch && ri.frames * ch < 8192)
				{	F = (long) sf_readf_short (rd, got, ri.frames) ; if (F > imgF) F = imgF ;
					for (q = 0 ; q < F * ch ; q++) if (got [q] != img [q]) { vh_viol (vh_key ("C15|accepted-data-corrupted|%s|%s", cur_fn, keyq), "single-shot fault at callback %ld: frame %ld of the finished file holds %d; the base file plus the writes the library reported (at the positions it reported) give %d", fault_at, q / ch, got [q], img [q]) ; break ; }
					vh_stat ("accepted_data_images_compared", 1) ; }
				if (rd) sf_close (rd) ;
				}
			}
		if (s) sf_close (s) ;
		}
accounted :
	free (store.snap) ; store.snap = NULL ; store.snap_len = 0 ;		/* the harness's own allocation must be gone before the heap is measured */
	calls = store.ncalls ; store.budget = 0 ;
	if (fault_at > 0)
	{	size_t h1 = vh_heap_bytes () ; int f1 = count_fds () ;
		if (store.fired) vh_stat ("fault_points_fired", 1) ; else vh_stat ("fault_points_not_reached", 1) ;
		if (h1 > h0 || f1 != f0)
		{	/* must repeat (lazy libc allocations do not) */
			static int depth ; if (!depth) { long c2 ; size_t g0 = vh_heap_bytes () ; depth = 1 ; c2 = run_workload (format, ch, wl, t, base, fault_at, kind, persist) ; depth = 0 ; (void) c2 ;
				if (vh_heap_bytes () > g0) vh_viol (vh_key ("C15|leak-after-fault|%s|%s|%s", cur_fn, wlname [wl], s ? "close" : "failed-open"), "fault %s at callback %ld (%s): live heap %zu -> %zu bytes, descriptors %d -> %d", kname [kind], fault_at, persist ? "persistent" : "single-shot", h0, h1, f0, f1) ; }
			}
		}
	return calls ;
}

static void fd_route (int format, int ch)
{	SF_INFO si ; SNDFILE *s ; int fd, k ; short sb [2048] ; const char *sd = getenv ("VERIF_SCRATCH_DIR") ; char path [400] ; const char *fn = vh_fname (format) ;
	memset (sb, 3, sizeof (sb)) ;
	/* ENOSPC: /dev/full accepts open and fails every write */
	fd = open ("/dev/full", O_WRONLY) ;
	if (fd >= 0)
	{	memset (&si, 0, sizeof (si)) ; si.format = format ; si.channels = ch ; si.samplerate = 8000 ; s = sf_open_fd (fd, SFM_WRITE, &si, 0) ; vh_stat ("dev_full_runs", 1) ;
		if (s) { for (k = 0 ; k < 30 ; k++) { sf_count_t w = sf_write_short (s, sb, 2048 / ch * ch) ; if (w < 0 || w > 2048) vh_viol (vh_key ("C15|return-range|write|%s|dev-full", fn), "returned %lld", (long long) w) ; } sf_close (s) ; }
		else if (sf_error (NULL) == 0) vh_viol (vh_key ("C15|open-fails-without-error|%s|dev-full", fn), "NULL without error") ;
		close (fd) ;
		}
	/* EBADF: descriptor closed behind the library's back; EINTR/EIO injected at the n-th read()/write() */
	snprintf (path, sizeof (path), "%s/c15_%d.dat", sd ? sd : ".", (int) getpid ()) ;
	for (k = 0 ; k < 12 ; k++)
	{	int mode = k % 3 ; /* 0 EBADF, 1 EINTR, 2 EIO */ int wr = (k / 3) % 2 ; long at = 1 + (k / 6) * 2 ;
		if (!wr) { MEMF b ; FILE *fp ; if (vh_make_file (&b, format, ch, 8000, 3000, 1)) { mv_free (&b) ; return ; } fp = fopen (path, "wb") ; fwrite (b.d, 1, b.len, fp) ; fclose (fp) ; mv_free (&b) ; }
		fd = open (path, wr ? (O_RDWR | O_CREAT | O_TRUNC) : O_RDONLY, 0600) ; if (fd < 0) continue ;
		memset (&si, 0, sizeof (si)) ; if (wr || (format & SF_FORMAT_TYPEMASK) == SF_FORMAT_RAW) { si.format = format ; si.channels = ch ; si.samplerate = 8000 ; }
		os_calls = 0 ; os_target_fd = fd ; os_errno = mode == 1 ? EINTR : EIO ; os_fault_at = mode == 0 ? 0 : (wr ? at : 100000) ;
		s = sf_open_fd (fd, wr ? SFM_WRITE : SFM_READ, &si, 0) ; vh_stat ("os_error_runs", 1) ;
		if (s)
		{	int j ; if (mode == 0) close (fd) ; else if (!wr) { os_calls = 0 ; os_fault_at = at ; }
			for (j = 0 ; j < 6 ; j++)
			{	SF_VERIF_STATE b0, b1 ; sf_count_t r ; vh_state (s, &b0) ; r = wr ? sf_write_short (s, sb, 2048 / ch * ch) : sf_read_short (s, sb, 2048 / ch * ch) ; vh_state (s, &b1) ;
				if (r < 0 || r > 2048) vh_viol (vh_key ("C15|return-range|%s|%s|%s", wr ? "write" : "read", fn, mode == 0 ? "EBADF" : mode == 1 ? "EINTR" : "EIO"), "returned %lld", (long long) r) ;
				else if ((wr ? b1.write_current - b0.write_current : b1.read_current - b0.read_current) != r / ch) vh_viol (vh_key ("C15|position-vs-count|%s|%s|%s", wr ? "write" : "read", fn, mode == 0 ? "EBADF" : mode == 1 ? "EINTR" : "EIO"), "returned %lld items, position moved %lld", (long long) r, (long long) (wr ? b1.write_current - b0.write_current : b1.read_current - b0.read_current)) ;
				/* EINTR is not a failure: the interrupted read() / write() succeeds when repeated, so the transfer must be complete (3000 frames are there to be read) */
				if (mode == 1 && j == 0) { vh_stat ("interrupted_transfers_checked", 1) ; if (r != 2048 / ch * ch) vh_viol (vh_key ("C15|interrupted-transfer-short|%s|%s", wr ? "write" : "read", fn), "read()/write() number %ld on the descriptor failed three times with EINTR and then worked: the %s call returned %lld of %d items (sf_error %d)", at, wr ? "sf_write_short" : "sf_read_short", (long long) r, 2048 / ch * ch, sf_error (s)) ; }
				}
			sf_seek (s, 0, SEEK_SET) ;
			sf_close (s) ;
			}
		os_fault_at = 0 ; os_target_fd = -1 ; if (mode != 0 || !s) close (fd) ;
		}
	unlink (path) ;
}

/* a pipe whose writer went away early: every read beyond the cut returns zero bytes for ever.  The files have a skippable region larger than the header cache
** in front of the audio data, so the parser is inside its skip-by-reading loop when the stream dries up */
static void dry_pipe (int which, int cutk)
{	FB f ; size_t top, at ; long cut, full ; int pfd [2] ; SF_INFO si ; SNDFILE *s ; static short sb [4096] ; sf_count_t r ; int k ;
	static const long cuts [] = { 30, 1000, 20000, 70000, 110000, 149000, 199990, -10, 0 } ;
	memset (&f, 0, sizeof (f)) ;
	if (which == 0) { fb_id (&f, ".snd") ; fb_be32 (&f, 200000) ; fb_be32 (&f, 0xffffffffu) ; fb_be32 (&f, 3) ; fb_be32 (&f, 8000) ; fb_be32 (&f, 1) ; fb_put (&f, NULL, 200000 - 24) ; fb_audio (&f, 2000, 1, 2, 1, 0) ; }
	else if (which == 1) { fb_id (&f, "RIFF") ; top = f.n ; fb_le32 (&f, 0) ; fb_id (&f, "WAVE") ; fb_wav_fmt (&f, 1, 1, 8000, 2, 0, 0) ; at = fb_begin (&f, "JUNK") ; fb_put (&f, NULL, 150000) ; fb_end (&f, at, 0) ; at = fb_begin (&f, "data") ; fb_audio (&f, 2000, 1, 2, 0, 0) ; fb_end (&f, at, 0) ; fb_end (&f, top, 0) ; }
	else { fb_id (&f, "FORM") ; top = f.n ; fb_le32 (&f, 0) ; fb_id (&f, "AIFF") ; at = fb_begin (&f, "COMM") ; fb_be16 (&f, 1) ; fb_be32 (&f, 2000) ; fb_be16 (&f, 16) ; fb_rate80 (&f, 8000) ; fb_end (&f, at, 1) ; at = fb_begin (&f, "APPL") ; fb_id (&f, "junk") ; fb_put (&f, NULL, 150000) ; fb_end (&f, at, 1) ; at = fb_begin (&f, "SSND") ; fb_be32 (&f, 0) ; fb_be32 (&f, 0) ; fb_audio (&f, 2000, 1, 2, 1, 0) ; fb_end (&f, at, 1) ; fb_end (&f, top, 1) ; }
	full = (long) f.n ; cut = cuts [cutk] <= 0 ? full + cuts [cutk] : cuts [cutk] ; if (cut > full) cut = full ;
	if (pipe (pfd)) { free (f.b) ; return ; }
	fcntl (pfd [1], 1031 /* F_SETPIPE_SZ */, 1 << 20) ;
	if (write (pfd [1], f.b, (size_t) cut) != cut) { close (pfd [0]) ; close (pfd [1]) ; free (f.b) ; vh_stat ("dry_pipe_setup_failed", 1) ; return ; }
	close (pfd [1]) ; free (f.b) ;
	memset (&si, 0, sizeof (si)) ; s = sf_open_fd (pfd [0], SFM_READ, &si, 0) ; vh_stat ("dry_pipe_opens", 1) ;
	if (s == NULL) { if (sf_error (NULL) == 0) vh_viol (vh_key ("C15|open-fails-without-error|dry-pipe|%d", which), "NULL without error, stream of %ld bytes cut at %ld", full, cut) ; vh_stat ("dry_pipe_opens_refused", 1) ; }
	else
	{	if (si.channels == 1) for (k = 0 ; k < 4 ; k++) { r = sf_read_short (s, sb, 1000) ; if (r < 0 || r > 1000) vh_viol (vh_key ("C15|return-range|read|dry-pipe|%d", which), "asked 1000 returned %lld", (long long) r) ; if (r > 0) vh_stat ("dry_pipe_items_read", (long) r) ; }
		sf_close (s) ; }
	close (pfd [0]) ;
}

int main (int argc, char **argv)
{	int f, c, wl, t ;
	vh_init (argc, argv, "c15_io_faults", "C15") ;
	vh_case_secs = 30 ; vh_case_cpu_secs = 8 ;		/* per fault point (re-armed in the loops): a workload needs milliseconds */
	vh_enum_formats () ;
	memset (&store, 0, sizeof (store)) ; store.cap = 8 << 20 ; store.d = calloc (1, store.cap) ;
	for (f = 0 ; f < vh_nfmts ; f++)
	{	int format = vh_fmts [f].format, maj = vh_fmts [f].major, sub = vh_fmts [f].sub ; MEMF base ;
		if (maj == SF_FORMAT_SD2) continue ;
		/* quick: one representative per container and per codec family; thorough: every format */
		if (!vh_thorough)
		{	static int seen_maj [64], seen_sub [64], nm, ns ; int i, newm = 1, news = 1 ;
			for (i = 0 ; i < nm ; i++) if (seen_maj [i] == maj) newm = 0 ; for (i = 0 ; i < ns ; i++) if (seen_sub [i] == sub) news = 0 ;
			if (!newm && !news) continue ; if (newm) seen_maj [nm++] = maj ; if (news) seen_sub [ns++] = sub ;
			}
		for (c = (vh_thorough && vh_accepts (format, 1, 8000) && vh_accepts (format, 2, 8000)) ? 1 : (vh_accepts (format, 2, 8000) ? 2 : 1) ; c <= 2 ; c++)		/* thorough: mono and stereo */
		{
		if (!vh_accepts (format, c, 8000)) continue ;
		memset (&base, 0, sizeof (base)) ;
		for (wl = 0 ; wl < 3 ; wl++) for (t = 0 ; t < T_N ; t++)
		{	int kind, persist ;
			/* one case per (workload, type, fault kind, persistence): a hang at one fault point ends that case only */
			for (kind = VF_ZERO ; kind < VF_NKINDS ; kind++) for (persist = 0 ; persist < 2 ; persist++)
			{	long K, i ;
				if (!vh_case ("%s/%s/%s%s ch=%d %s", vh_fname (format), wlname [wl], kname [kind], persist ? "+persistent" : "", c, vh_tname [t])) continue ;
				cur_fn = vh_fname (format) ; cur_wl = wl ; cur_t = t ; snprintf (keyq, sizeof (keyq), "%s|%s", wlname [wl], kname [kind]) ;
				if (wl != WL_WRITE && base.d == NULL && vh_make_file (&base, format, c, 8000, 2500, 1)) { mv_free (&base) ; continue ; }
				K = run_workload (format, c, wl, t, &base, 0, 0, 0) ;
				if (K <= 0) { vh_statf (1, "workload_not_applicable:%s:%s", vh_fname (format), wlname [wl]) ; continue ; }
				vh_stat ("workloads", 1) ; vh_stat ("fault_free_callbacks", K) ;
				if (kind == VF_ZERO && persist) vh_sample ("%s ch=%d %s with %s data: %ld I/O callbacks fault-free; fault '%s' (persistent) injected at each of them in turn", vh_fname (format), c, wlname [wl], vh_tname [t], K, kname [kind]) ;
				for (i = 1 ; i <= K ; i++)
				{	char *at = strstr (vh_case_desc, " @") ; if (at) *at = 0 ;
					snprintf (vh_case_desc + strlen (vh_case_desc), sizeof (vh_case_desc) - strlen (vh_case_desc), " @%ld", i) ;
					vh_rearm () ;
					vh_distinct (vh_fnv (0, &format, 4) ^ ((uint64_t) wl << 40) ^ ((uint64_t) t << 42) ^ ((uint64_t) i << 16) ^ ((uint64_t) kind << 4) ^ (uint64_t) persist ^ ((uint64_t) c << 45)) ;
					run_workload (format, c, wl, t, &base, i, kind, persist) ;
					vh_stat ("faulted_runs", 1) ;
					if (vh_thorough && !persist)		/* two single-shot faults: the second of a random kind at 2 later callbacks */
					{	int z ; for (z = 0 ; z < 6 ; z++)
						{	g_fault2 = i + 1 + vh_rint ((int) (K - i > 40 ? 40 : K - i + 3)) ; g_kind2 = VF_ZERO + vh_rint (VF_NKINDS - VF_ZERO) ;
							vh_distinct (vh_fnv (0, &format, 4) ^ ((uint64_t) wl << 40) ^ ((uint64_t) t << 42) ^ ((uint64_t) i << 16) ^ ((uint64_t) kind << 4) ^ ((uint64_t) g_fault2 << 48) ^ ((uint64_t) g_kind2 << 60) ^ ((uint64_t) c << 45)) ;
							snprintf (vh_case_desc + strlen (vh_case_desc), sizeof (vh_case_desc) - strlen (vh_case_desc), "+%s@%ld", kname [g_kind2], g_fault2) ;
							vh_rearm () ;
							run_workload (format, c, wl, t, &base, i, kind, 0) ; vh_stat ("double_fault_runs", 1) ;
							{ char *at2 = strrchr (vh_case_desc, '+') ; if (at2) *at2 = 0 ; }
							}
						g_fault2 = 0 ; g_kind2 = 0 ;
						}
					}
				}
			}
		if (vh_case ("%s ch=%d descriptor route (ENOSPC, EBADF, EINTR, EIO)", vh_fname (format), c)) { cur_fn = vh_fname (format) ; vh_distinct (vh_fnv (0, &format, 4) ^ 77) ; fd_route (format, c) ; }
		mv_free (&base) ;
		}
		}
	for (f = 0 ; f < 3 ; f++) for (c = 0 ; c < 9 ; c++) if (vh_case ("pipe that dries up: %s with a 150-200 KB skippable region, cut %d", f == 0 ? "AU" : f == 1 ? "WAV" : "AIFF", c))
	{	cur_fn = f == 0 ? "AU/PCM_16" : f == 1 ? "WAV/PCM_16" : "AIFF/PCM_16" ; vh_distinct (0xD0000 + f * 16 + c) ; if (f == 0 && c == 0) vh_sample ("AU / WAV / AIFF streams with a skippable region larger than the header cache, written into a pipe up to 9 cut points, writer closed: open and reads must return") ; dry_pipe (f, c) ; }
	return vh_finish () ;
}
