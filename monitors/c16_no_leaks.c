/* C16 — no leaked memory, descriptors or temporary files for any call history.
** Oracle per scenario (many scenarios per process): live heap bytes (__sanitizer_get_current_allocated_bytes), the number of
** open descriptors (/proc/self/fd) and the entries of the private TMPDIR/scratch directory must be the same after the
** scenario's sf_close (or failed sf_open) as before it.  A difference must repeat on an immediate re-run of the same
** scenario to count (one-time lazy allocations of libc do not repeat).  LeakSanitizer prints the allocation stack.
*/
#include "vh.h"
#include "foreign.h"
#include <dirent.h>
#include "mutate.h"

static char scratch [300], tmpd [400] ;
static int g_close_bad ; static int g_close_rc ;	/* a non-zero return of sf_close although the underlying close succeeded */
#define CLOSE(s) do { int rc_ = sf_close (s) ; if (rc_ != 0) { g_close_bad++ ; g_close_rc = rc_ ; } } while (0)
static int count_dir (const char *d) { DIR *dp = opendir (d) ; int n = 0 ; struct dirent *e ; if (!dp) return -1 ; while ((e = readdir (dp))) if (e->d_name [0] != '.' || (e->d_name [1] && e->d_name [1] != '.')) n++ ; closedir (dp) ; return n ; }
static int count_fds (void) { return count_dir ("/proc/self/fd") ; }

typedef struct { size_t heap ; int fds, tmp, scr ; } SNAP ;
static void snap (SNAP *s) { s->fds = count_fds () ; s->tmp = count_dir (tmpd) ; s->scr = count_dir (scratch) ; s->heap = vh_heap_bytes () ; }

typedef void (*SCEN) (void *arg) ;
/* run a scenario with accounting; 'own_files' = files the scenario legitimately leaves in the scratch dir */
static int account_fd0 = 0 ;	/* 1: descriptor 0 is closed before every attempt */
static void account (const char *key, SCEN fn, void *arg, int own_files)
{	SNAP a, b ; int attempt, leaked = 0 ; char what [200] = "" ;
	for (attempt = 0 ; attempt < 2 ; attempt++)
	{	if (account_fd0 && fcntl (0, F_GETFD) != -1) close (0) ;
		snap (&a) ; fn (arg) ; snap (&b) ;
		if (b.fds < a.fds) { vh_viol (key, "descriptors %d -> %d: the library closed a descriptor it did not open", a.fds, b.fds) ; vh_stat ("scenarios_accounted", 1) ; return ; }	/* cannot be a lazy one-time effect: reported at once */
		if (b.heap <= a.heap && b.fds == a.fds && b.tmp == a.tmp && b.scr <= a.scr + own_files) { leaked = 0 ; break ; }
		leaked = 1 ;
		snprintf (what, sizeof (what), "heap %zu -> %zu bytes (%+ld), descriptors %d -> %d, temp-dir entries %d -> %d, scratch entries %d -> %d", a.heap, b.heap, (long) b.heap - (long) a.heap, a.fds, b.fds, a.tmp, b.tmp, a.scr, b.scr) ;
		own_files = 0 ;		/* the second run overwrites the same output files */
		}
	vh_stat ("scenarios_accounted", 1) ;
	if (g_close_bad) { vh_viol (vh_key ("C16|close-returns-nonzero|%s", strchr (key + 4, '|') ? strchr (key + 4, '|') + 1 : key), "sf_close returned %d although no I/O failed", g_close_rc) ; g_close_bad = 0 ; }
	if (leaked)
	{	SNAP c ; snap (&c) ;
		vh_viol (key, "%s%s%s (repeatable)", what, b.heap > a.heap ? " [heap]" : "", b.fds != a.fds ? " [fd]" : "") ;
		if (__lsan_do_recoverable_leak_check) __lsan_do_recoverable_leak_check () ;
		}
}

/* run an accounted scenario in a process whose descriptor 0 is free (a daemon that closed stdin): the library's own open() then returns 0 */
static void account_fd0_free (const char *key, SCEN fn, void *arg, int own_files)
{	int saved = dup (0) ;
	if (saved < 0) { account (key, fn, arg, own_files) ; return ; }
	close (0) ; account_fd0 = 1 ;
	account (key, fn, arg, own_files) ;
	account_fd0 = 0 ;
	vh_stat ("scenarios_with_descriptor_0_free", 1) ;
	if (fcntl (0, F_GETFD) != -1) close (0) ;		/* a leaked descriptor 0 (already reported by account) */
	dup2 (saved, 0) ; close (saved) ;
}

/* ---------------------------------------------------------------- scenario: valid histories */
typedef struct { int format, ch, mode, route, meta, nframes, extra ; const MEMF *base ; } VALID ;

static void all_meta (SNDFILE *s, int level)
{	int t ; static const char *txt = "some metadata text that is long enough to need real storage in the string table" ;
	for (t = SF_STR_FIRST ; t <= SF_STR_LAST ; t++) sf_set_string (s, t, txt) ;
	if (level < 2) return ;
	{	SF_BROADCAST_INFO bi ; SF_CART_INFO ci ; SF_CUES cu ; SF_INSTRUMENT in ; int cm [8] = { SF_CHANNEL_MAP_LEFT, SF_CHANNEL_MAP_RIGHT, SF_CHANNEL_MAP_CENTER, SF_CHANNEL_MAP_LFE, SF_CHANNEL_MAP_REAR_LEFT, SF_CHANNEL_MAP_REAR_RIGHT, SF_CHANNEL_MAP_MONO, SF_CHANNEL_MAP_MONO } ; int i ;
		memset (&bi, 0, sizeof (bi)) ; snprintf (bi.description, sizeof (bi.description), "desc") ; snprintf (bi.coding_history, sizeof (bi.coding_history), "A=PCM\r\n") ; bi.coding_history_size = 7 ; sf_command (s, SFC_SET_BROADCAST_INFO, &bi, sizeof (bi)) ;
		memset (&ci, 0, sizeof (ci)) ; snprintf (ci.title, sizeof (ci.title), "cart") ; snprintf (ci.tag_text, sizeof (ci.tag_text), "tag") ; ci.tag_text_size = 4 ; sf_command (s, SFC_SET_CART_INFO, &ci, sizeof (ci)) ;
		memset (&cu, 0, sizeof (cu)) ; cu.cue_count = 5 ; for (i = 0 ; i < 5 ; i++) { cu.cue_points [i].indx = i ; cu.cue_points [i].sample_offset = i * 3 ; } sf_command (s, SFC_SET_CUE, &cu, sizeof (cu)) ;
		memset (&in, 0, sizeof (in)) ; in.basenote = 60 ; in.key_hi = in.velocity_hi = 127 ; in.loop_count = 2 ; in.loops [0].mode = in.loops [1].mode = SF_LOOP_FORWARD ; in.loops [0].end = 10 ; in.loops [1].start = 11 ; in.loops [1].end = 20 ; if (level != 3) sf_command (s, SFC_SET_INSTRUMENT, &in, sizeof (in)) ;	/* level 3: cues without instrument (AIFF writes MARK only then) */
		sf_command (s, SFC_SET_CHANNEL_MAP_INFO, cm, 2 * sizeof (int)) ; sf_command (s, SFC_SET_ADD_PEAK_CHUNK, NULL, SF_TRUE) ;
		for (i = 0 ; i < 25 ; i++) { SF_CHUNK_INFO c ; memset (&c, 0, sizeof (c)) ; snprintf (c.id, sizeof (c.id), "ck%02d", i) ; c.id_size = 4 ; c.datalen = 10 + i ; c.data = (void *) txt ; sf_set_chunk (s, &c) ; }
		{	SF_DITHER_INFO di ; memset (&di, 0, sizeof (di)) ; di.type = SFD_WHITE ; di.level = 0.1 ; sf_command (s, SFC_SET_DITHER_ON_WRITE, &di, sizeof (di)) ; sf_command (s, SFC_SET_DITHER_ON_READ, &di, sizeof (di)) ; }
		sf_command (s, SFC_SET_VBR_ENCODING_QUALITY, &(double) { 0.5 }, sizeof (double)) ; sf_command (s, SFC_SET_COMPRESSION_LEVEL, &(double) { 0.5 }, sizeof (double)) ;
		}
}
static MEMF wm ;	/* write target, capacity reserved outside the accounted region */
static void scen_valid (void *arg)
{	VALID *v = arg ; SNDFILE *s ; SF_INFO si ; char path [420] ; float fb [64 * 8] ; int i ;
	for (i = 0 ; i < 64 * 8 ; i++) fb [i] = 0.01f * (i % 37) ;
	memset (&si, 0, sizeof (si)) ; snprintf (path, sizeof (path), "%s/v_%d.%s", scratch, (int) getpid (), (v->format & SF_FORMAT_TYPEMASK) == SF_FORMAT_SD2 ? "sd2" : "dat") ;
	if (v->mode == SFM_WRITE || (v->format & SF_FORMAT_TYPEMASK) == SF_FORMAT_RAW) { si.format = v->format ; si.channels = v->ch ; si.samplerate = 8000 ; }
	if (v->mode == SFM_WRITE)
	{	wm.len = wm.pos = 0 ;
		s = v->route ? sf_open (path, SFM_WRITE, &si) : sf_open_virtual (&MVIO, SFM_WRITE, &si, &wm) ;
		if (!s) return ;
		if (v->meta) all_meta (s, v->meta) ;
		if (v->meta && (v->extra & 1)) all_meta (s, v->meta) ;		/* every item set a second time: the first allocation must not be lost */
		for (i = 0 ; i < 64 * 8 ; i++) fb [i] = 0.01f * (i % 37) ;
		for (i = 0 ; i < v->nframes ; i += 64) sf_writef_float (s, fb, v->nframes - i > 64 ? 64 : v->nframes - i) ;
		if (v->extra & 1) sf_command (s, SFC_UPDATE_HEADER_NOW, NULL, 0) ;
		if (v->extra & 2) { sf_read_short (s, (short *) fb, 2) ; sf_seek (s, -3, SEEK_SET) ; sf_command (s, 0x7777, NULL, 0) ; }	/* calls that fail on this handle */
		CLOSE (s) ;
		}
	else
	{	MEMF rm ; rm = *v->base ; rm.pos = 0 ;	/* shares the bytes, read-only use */
		if (v->mode == SFM_RDWR) { wm.len = v->base->len ; wm.pos = 0 ; memcpy (wm.d, v->base->d, v->base->len) ; s = sf_open_virtual (&MVIO, SFM_RDWR, &si, &wm) ; }
		else s = sf_open_virtual (&MVIO, SFM_READ, &si, &rm) ;
		if (!s) return ;
		if (v->nframes) { sf_readf_float (s, fb, v->nframes > 64 ? 64 : v->nframes) ; sf_seek (s, 1, SEEK_SET) ; sf_readf_float (s, fb, 3) ; }
		if (v->meta)
		{	SF_CHUNK_ITERATOR *it = sf_get_chunk_iterator (s, NULL) ; int n = 0, t ; double mx [8] ; SF_BROADCAST_INFO bi ; SF_CUES cu ;
			while (it && n++ < 100) { SF_CHUNK_INFO c ; memset (&c, 0, sizeof (c)) ; if (sf_get_chunk_size (it, &c) == 0 && c.datalen < 100000) { c.data = malloc (c.datalen + 1) ; sf_get_chunk_data (it, &c) ; free (c.data) ; } it = sf_next_chunk_iterator (it) ; }
			{	SF_CHUNK_INFO q ; memset (&q, 0, sizeof (q)) ; snprintf (q.id, sizeof (q.id), "ck03") ; q.id_size = 4 ; it = sf_get_chunk_iterator (s, &q) ; (void) it ; }	/* iterator left open at close */
			for (t = SF_STR_FIRST ; t <= SF_STR_LAST ; t++) sf_get_string (s, t) ;
			sf_command (s, SFC_CALC_MAX_ALL_CHANNELS, mx, v->ch * sizeof (double)) ; sf_command (s, SFC_GET_BROADCAST_INFO, &bi, sizeof (bi)) ; sf_command (s, SFC_GET_CUE, &cu, sizeof (cu)) ;
			if (v->mode == SFM_RDWR) { sf_set_string (s, SF_STR_TITLE, "changed in rdwr") ; sf_writef_float (s, fb, 5) ; }
			}
		if (v->extra & 2) { sf_write_short (s, (short *) fb, 2) ; sf_seek (s, 1 << 30, SEEK_SET) ; sf_read_int (s, (int *) fb, -4) ; }
		CLOSE (s) ;
		}
	unlink (path) ; { char r [440] ; snprintf (r, sizeof (r), "%s/._v_%d.sd2", scratch, (int) getpid ()) ; unlink (r) ; }
}

/* ---------------------------------------------------------------- scenario: (possibly rejected) input bytes */
typedef struct { const unsigned char *d ; long len ; int route, mode ; } INPUT ;
static void scen_input (void *arg)
{	INPUT *in = arg ; SF_INFO si ; SNDFILE *s ; MEMF m ; char path [420] ; short sb [256] ;
	memset (&si, 0, sizeof (si)) ;
	if (in->route == 0 && in->mode == SFM_RDWR)		/* the library may write: work on the pre-reserved buffer, never on the borrowed bytes */
	{	wm.len = in->len ; wm.pos = 0 ; wm.ncalls = 0 ; memcpy (wm.d, in->d, in->len) ; wm.budget = 64 * (in->len + 70000) ; s = sf_open_virtual (&MVIO, SFM_RDWR, &si, &wm) ; wm.budget = 0 ; }
	else if (in->route == 0) { memset (&m, 0, sizeof (m)) ; m.d = (unsigned char *) in->d ; m.len = in->len ; m.cap = in->len ; m.budget = 64 * (in->len + 70000) ; s = sf_open_virtual (&MVIO, in->mode, &si, &m) ; }
	else
	{	FILE *fp ; snprintf (path, sizeof (path), "%s/in_%d.dat", scratch, (int) getpid ()) ; fp = fopen (path, "wb") ; if (!fp) return ; fwrite (in->d, 1, in->len, fp) ; fclose (fp) ;
		s = sf_open (path, in->mode, &si) ; }
	if (s) { if (si.channels >= 1 && si.channels <= 128) sf_readf_short (s, sb, 256 / si.channels) ; sf_get_string (s, SF_STR_TITLE) ; sf_get_chunk_iterator (s, NULL) ; CLOSE (s) ; vh_stat ("inputs_accepted", 1) ; }
	else vh_stat ("inputs_rejected", 1) ;
	if (in->route) unlink (path) ;
}

/* ---------------------------------------------------------------- scenario: SD2 with a damaged resource fork */
typedef struct { const unsigned char *rsrc ; long rlen ; const unsigned char *data ; long dlen ; } SD2IN ;
static void scen_sd2 (void *arg)
{	SD2IN *in = arg ; char p1 [420], p2 [440] ; FILE *fp ; SF_INFO si ; SNDFILE *s ; short sb [64] ;
	snprintf (p1, sizeof (p1), "%s/x_%d.sd2", scratch, (int) getpid ()) ; snprintf (p2, sizeof (p2), "%s/._x_%d.sd2", scratch, (int) getpid ()) ;
	fp = fopen (p1, "wb") ; if (!fp) return ; fwrite (in->data, 1, in->dlen, fp) ; fclose (fp) ;
	fp = fopen (p2, "wb") ; if (!fp) { unlink (p1) ; return ; } fwrite (in->rsrc, 1, in->rlen, fp) ; fclose (fp) ;
	memset (&si, 0, sizeof (si)) ; s = sf_open (p1, SFM_READ, &si) ;
	if (s) { if (si.channels >= 1 && si.channels <= 32) sf_readf_short (s, sb, 64 / si.channels) ; CLOSE (s) ; vh_stat ("sd2_accepted", 1) ; } else vh_stat ("sd2_rejected", 1) ;
	unlink (p1) ; unlink (p2) ;
}
static long slurp (const char *p, unsigned char **out) { FILE *f = fopen (p, "rb") ; long n ; if (!f) return -1 ; fseek (f, 0, SEEK_END) ; n = ftell (f) ; fseek (f, 0, SEEK_SET) ; *out = malloc (n + 1) ; if (fread (*out, 1, n, f) != (size_t) n) n = -1 ; fclose (f) ; return n ; }

/* ---------------------------------------------------------------- scenario: I/O fault during open / read / close */
typedef struct { const MEMF *base ; long at ; int kind, persist, write_mode, format, ch ; } FAULT ;
static void scen_fault (void *arg) ;
static void scen_fault_inner (void *arg) ;
static void scen_fault (void *arg) { scen_fault_inner (arg) ; g_close_bad = 0 ; /* under injected I/O faults sf_close may report the failure */ }
static void scen_fault_inner (void *arg)
{	FAULT *f = arg ; SF_INFO si ; SNDFILE *s ; short sb [128] ; MEMF m ;
	memset (&si, 0, sizeof (si)) ;
	if (f->write_mode)
	{	wm.len = wm.pos = 0 ; wm.ncalls = 0 ; wm.fault_at = f->at ; wm.fault_kind = f->kind ; wm.fault_persist = f->persist ; wm.budget = 400000 ;
		si.format = f->format ; si.channels = f->ch ; si.samplerate = 8000 ; s = sf_open_virtual (&MVIO, SFM_WRITE, &si, &wm) ;
		if (s) { int i ; memset (sb, 1, sizeof (sb)) ; sf_set_string (s, SF_STR_TITLE, "t") ; for (i = 0 ; i < 40 ; i++) sf_write_short (s, sb, 128 / f->ch * f->ch) ; CLOSE (s) ; }
		wm.fault_at = 0 ; wm.budget = 0 ; return ;
		}
	m = *f->base ; m.pos = 0 ; m.ncalls = 0 ; m.fault_at = f->at ; m.fault_kind = f->kind ; m.fault_persist = f->persist ; m.budget = 400000 ;
	s = sf_open_virtual (&MVIO, SFM_READ, &si, &m) ;
	if (s) { if (si.channels >= 1 && si.channels <= 64) { sf_readf_short (s, sb, 128 / si.channels) ; sf_seek (s, 5, SEEK_SET) ; sf_readf_short (s, sb, 128 / si.channels) ; } CLOSE (s) ; }
}

/* ---------------------------------------------------------------- scenario: headerless codec streams of constant / random bytes (predictors driven to their limits) */
typedef struct { int format, ch, byte ; } STREAM ;
static void scen_stream (void *arg)
{	STREAM *st = arg ; static unsigned char raw [6000] ; MEMF m ; SF_INFO si ; SNDFILE *s ; short sb [512] ; int i ;
	for (i = 0 ; i < 6000 ; i++) raw [i] = st->byte >= 0 ? (unsigned char) st->byte : (unsigned char) (i * 197 + (i >> 3) * 31) ;
	memset (&m, 0, sizeof (m)) ; m.d = raw ; m.len = 6000 ; m.cap = 6000 ; memset (&si, 0, sizeof (si)) ; si.format = st->format ; si.channels = st->ch ; si.samplerate = 8000 ;
	s = sf_open_virtual (&MVIO, SFM_READ, &si, &m) ; if (!s) return ;
	while (sf_read_short (s, sb, 512 / st->ch * st->ch) > 0) ;
	CLOSE (s) ; vh_stat ("raw_codec_streams_read", 1) ;
}

int main (int argc, char **argv)
{	int f, c ; const char *sd ;
	vh_init (argc, argv, "c16_no_leaks", "C16") ;
	vh_case_secs = 30 ; vh_case_cpu_secs = 6 ;
	vh_enum_formats () ;
	sd = getenv ("VERIF_SCRATCH_DIR") ; snprintf (scratch, sizeof (scratch), "%s/c16_%d", sd ? sd : ".", (int) getpid ()) ; mkdir (scratch, 0700) ;
	snprintf (tmpd, sizeof (tmpd), "%s", getenv ("TMPDIR") ? getenv ("TMPDIR") : "/tmp") ;
	memset (&wm, 0, sizeof (wm)) ; wm.cap = 4 << 20 ; wm.d = calloc (1, wm.cap) ;
	{	static const int bytes [] = { 0x00, 0x77, 0x88, 0xFF, 0x7F, 0x80, 0x08, -1 } ; int b2 ;
		for (f = 0 ; f < vh_nfmts ; f++) if (vh_fmts [f].major == SF_FORMAT_RAW) for (b2 = 0 ; b2 < 8 ; b2++)
		{	STREAM st ; char key2 [200] ; st.format = vh_fmts [f].format ; st.ch = vh_accepts (st.format, 1, 8000) ? 1 : 2 ; st.byte = bytes [b2] ;
			if (!vh_accepts (st.format, st.ch, 8000)) continue ;
			if (!vh_case ("%s stream of byte %d", vh_fname (st.format), bytes [b2])) continue ;
			snprintf (key2, sizeof (key2), "C16|leak|raw-stream|%s", vh_fname (st.format)) ; vh_distinct (vh_fnv (0, &st.format, 4) ^ ((uint64_t) (bytes [b2] + 2) << 40)) ;
			account (key2, scen_stream, &st, 0) ;
			}
		}
	for (f = 0 ; f < vh_nfmts ; f++) for (c = 1 ; c <= 2 ; c++)
	{	int format = vh_fmts [f].format, maj = vh_fmts [f].major, k ; MEMF base ; char key [200] ;
		if (!vh_accepts (format, c, 8000)) continue ;
		memset (&base, 0, sizeof (base)) ;
		/* A. valid histories */
		for (k = 0 ; k < 24 ; k++)
		{	VALID v ; v.format = format ; v.ch = c ; v.mode = (k % 3 == 0) ? SFM_WRITE : (k % 3 == 1) ? SFM_READ : SFM_RDWR ; v.route = (maj == SF_FORMAT_SD2) ? 1 : ((k / 3) & 1) ; v.meta = (k / 6) % 3 ; v.nframes = (k / 12) ? 700 : 0 ; v.extra = k % 4 ; v.base = &base ;
			if (maj == SF_FORMAT_SD2 && v.mode != SFM_WRITE) continue ;
			if (!vh_case ("%s ch=%d valid history %d (mode %s route %s meta %d frames %d)", vh_fname (format), c, k, v.mode == SFM_WRITE ? "w" : v.mode == SFM_READ ? "r" : "rw", v.route ? "path" : "vio", v.meta, v.nframes)) continue ;
			if (v.mode != SFM_WRITE && base.d == NULL) { if (vh_make_file (&base, format, c, 8000, 900, 1)) { mv_free (&base) ; continue ; } }
			if (v.mode != SFM_WRITE && v.route) v.route = 0 ;
			snprintf (key, sizeof (key), "C16|leak|valid-history|%s|%s%s%s", vh_fname (format), v.mode == SFM_WRITE ? "write" : v.mode == SFM_READ ? "read" : "rdwr", v.nframes ? "" : "|no-io", v.meta == 2 ? "|all-metadata" : "") ;
			vh_distinct (vh_fnv (0, &v, sizeof (int) * 7)) ; vh_statf (1, "fmt:%s", vh_fname (format)) ;
			if (k == 3) vh_sample ("%s ch=%d: valid %s history via %s, metadata level %d, %d frames, extra calls %d; heap/fd/tmp accounted around it", vh_fname (format), c, "write/read/rdwr", "vio|path", v.meta, v.nframes, v.extra) ;
			if (v.route == 1 && (k % 4) == 1) account_fd0_free (key, scen_valid, &v, 0) ; else account (key, scen_valid, &v, 0) ;		/* some path-route histories run with descriptor 0 free */
			}
		/* B. rejected inputs: truncation at every header byte (step 1 up to 120, then coarser), vio and path */
		if (maj != SF_FORMAT_SD2 && maj != SF_FORMAT_RAW)
		{	long cut ; MEMF rich ; SNDFILE *s ; memset (&rich, 0, sizeof (rich)) ;
			s = vh_open_w (&rich, format, c, 8000, NULL) ;
			if (s) { short z [512] = { 0 } ; all_meta (s, 2) ; sf_write_short (s, z, 512 / c * c) ; sf_close (s) ; }
			for (cut = 0 ; s && cut <= rich.len && cut < 3000 ; cut += (cut < 120 ? 1 : cut < 600 ? 7 : 53))
			{	INPUT in ; in.d = rich.d ; in.len = cut ; in.route = (cut % 5 == 0) ; in.mode = (cut % 11 == 3) ? SFM_RDWR : SFM_READ ;
				if (!vh_case ("%s ch=%d truncated at %ld of %ld (%s)", vh_fname (format), c, cut, (long) rich.len, in.route ? "path" : "vio")) continue ;
				snprintf (key, sizeof (key), "C16|leak|truncated-input|%s|%s", vh_fname (format), in.mode == SFM_RDWR ? "rdwr" : "read") ;
				vh_distinct (vh_fnv (0, &format, 4) ^ ((uint64_t) cut << 32) ^ ((uint64_t) c << 60) ^ 99) ;
				if (in.route && cut % 10 == 0) account_fd0_free (key, scen_input, &in, 0) ; else account (key, scen_input, &in, 0) ;
				}
			/* C. mutated inputs: the structure-aware mutators shared with C03 (field values, chunk sizes, duplicated/deleted/appended chunks ...),
			**    opened for read and for read/write, through virtual I/O and by path */
			for (k = 0 ; s && k < (vh_thorough ? 6000 : 150) ; k++)
			{	INPUT in ; MEMF mm ; CORP cb ; char desc [300] ;
				if (!vh_case ("%s ch=%d mutated input %d", vh_fname (format), c, k)) continue ;
				cb.d = rich.d ; cb.len = (long) rich.len ; cb.format = format ; cb.ch = c ; cb.meta = 2 ;
				if (k == 0) { mv_from (&mm, rich.d, rich.len) ; snprintf (desc, sizeof (desc), "unmodified") ; } else mutate (&mm, &cb, desc, sizeof (desc)) ;
				if (mm.len > 2000000) { mv_free (&mm) ; continue ; }
				in.d = mm.d ; in.len = (long) mm.len ; in.route = (k % 4 == 3) ; in.mode = (k % 3 == 0) ? SFM_RDWR : SFM_READ ;
				snprintf (key, sizeof (key), "C16|leak|mutated-input|%s|%s", vh_fname (format), in.mode == SFM_RDWR ? "rdwr" : "read") ;
				vh_distinct (vh_fnv (vh_fnv (0, mm.d, (size_t) mm.len), &in.mode, 4) ^ (uint64_t) in.route) ;
				if (k % 40 == 1) vh_sample ("%s ch=%d: input with [%s] opened %s via %s, heap/fd/tmp accounted", vh_fname (format), c, desc, in.mode == SFM_RDWR ? "SFM_RDWR" : "SFM_READ", in.route ? "path" : "vio") ;
				account (key, scen_input, &in, 0) ;
				mv_free (&mm) ;
				}
			/* C2. systematic chunk mutations: every chunk of the header (found by walking the chunk list) x 16 mutations of its size field / id / truncation,
			**     read and read-write; two metadata profiles of the base file (everything; cues without instrument) */
			if (s && (maj == SF_FORMAT_WAV || maj == SF_FORMAT_WAVEX || maj == SF_FORMAT_RF64 || maj == SF_FORMAT_AIFF || maj == SF_FORMAT_CAF || maj == SF_FORMAT_W64 || maj == SF_FORMAT_SVX || maj == SF_FORMAT_AVR || maj == SF_FORMAT_VOC || maj == SF_FORMAT_MAT5))
			{	int mi, mk, rv ;
				for (rv = 0 ; rv < 2 ; rv++)
				{	MEMF rich2 ; CORP cb ; memset (&rich2, 0, sizeof (rich2)) ;
					if (rv == 0) { cb.d = rich.d ; cb.len = (long) rich.len ; }
					else
					{	SNDFILE *s2 = vh_open_w (&rich2, format, c, 8000, NULL) ; short z [512] = { 0 } ; if (!s2) break ;
						all_meta (s2, 3) ; sf_write_short (s2, z, 512 / c * c) ; sf_set_string (s2, SF_STR_COMMENT, "a string written after the audio data") ; sf_close (s2) ; cb.d = rich2.d ; cb.len = (long) rich2.len ; }
					cb.format = format ; cb.ch = c ; cb.meta = 2 ;
					for (mi = 0 ; mi < 80 ; mi++) for (mk = 0 ; mk < MUTATE_MARKER_KINDS ; mk++)
					{	INPUT in ; MEMF mm ; char desc [200] ; int md ;
						if (!vh_case ("%s ch=%d profile %d chunk %d mutation %d", vh_fname (format), c, rv, mi, mk)) continue ;
						if (!mutate_marker (&mm, &cb, mi, mk, cb.len, desc, sizeof (desc))) continue ;
						for (md = 0 ; md < 2 ; md++)
						{	in.d = mm.d ; in.len = (long) mm.len ; in.route = 0 ; in.mode = md ? SFM_RDWR : SFM_READ ;
							snprintf (key, sizeof (key), "C16|leak|marker-mutation|%s|%s", vh_fname (format), md ? "rdwr" : "read") ;
							vh_distinct (vh_fnv (vh_fnv (0, mm.d, (size_t) mm.len), &md, 4) ^ 0xC2) ;
							vh_stat ("chunk_mutations_run", 1) ;
							account (key, scen_input, &in, 0) ;
							}
						mv_free (&mm) ;
						}
					mv_free (&rich2) ;
					}
				}
			/* C3. systematic field sweep of the first 64 header bytes (every even offset x 14 hostile 32-bit values), read and read-write */
			if (s)
			{	int fi, fk ; CORP cb ; cb.d = rich.d ; cb.len = (long) rich.len ; cb.format = format ; cb.ch = c ; cb.meta = 2 ;
				for (fi = 0 ; fi < 32 ; fi++) for (fk = 0 ; fk < MUTATE_FIELD_KINDS ; fk++)
				{	INPUT in ; MEMF mm ; char desc [200] ; int md ;
					if (!vh_thorough && c == 2 && ((fi + fk) & 1)) continue ;
					if (!vh_case ("%s ch=%d header field %d value %d", vh_fname (format), c, fi, fk)) continue ;
					if (!mutate_field (&mm, &cb, fi, fk, 64, desc, sizeof (desc))) continue ;
					for (md = 0 ; md < 2 ; md++)
					{	in.d = mm.d ; in.len = (long) mm.len ; in.route = 0 ; in.mode = md ? SFM_RDWR : SFM_READ ;
						snprintf (key, sizeof (key), "C16|leak|field-sweep|%s|%s", vh_fname (format), md ? "rdwr" : "read") ;
						vh_distinct (vh_fnv (vh_fnv (0, mm.d, (size_t) mm.len), &md, 4) ^ 0xC3) ;
						vh_stat ("field_sweep_inputs", 1) ;
						account (key, scen_input, &in, 0) ;
						}
					mv_free (&mm) ;
					}
				}
			/* D. single-shot and persistent I/O faults while opening/reading, and while writing */
			if (s && c == 1)
			{	int kind ; long at ;
				for (kind = VF_ZERO ; kind < VF_NKINDS ; kind++) for (at = 1 ; at <= 40 ; at += (at < 16 ? 1 : 4))
				{	FAULT ft ; ft.base = &rich ; ft.at = at ; ft.kind = kind ; ft.persist = (at & 1) ; ft.write_mode = 0 ; ft.format = format ; ft.ch = c ;
					if (vh_case ("%s read with I/O fault kind %d at callback %ld", vh_fname (format), kind, at))
					{	snprintf (key, sizeof (key), "C16|leak|io-fault-read|%s", vh_fname (format)) ; vh_distinct (vh_fnv (0, &format, 4) ^ ((uint64_t) kind << 40) ^ ((uint64_t) at << 20) ^ 5) ; account (key, scen_fault, &ft, 0) ; }
					ft.write_mode = 1 ;
					if ((kind == VF_ZERO || kind == VF_SHORT || kind == VF_SEEKFAIL) && vh_case ("%s write with I/O fault kind %d at callback %ld", vh_fname (format), kind, at))
					{	snprintf (key, sizeof (key), "C16|leak|io-fault-write|%s", vh_fname (format)) ; vh_distinct (vh_fnv (0, &format, 4) ^ ((uint64_t) kind << 40) ^ ((uint64_t) at << 20) ^ 6) ; account (key, scen_fault, &ft, 0) ; }
					}
				}
			mv_free (&rich) ;
			}
		mv_free (&base) ;
		}
	/* E. SD2: data fork + damaged resource fork */
	{	char p1 [420], p2 [440] ; SF_INFO si ; SNDFILE *s ; unsigned char *rs = NULL, *dt = NULL ; long rl, dl, k ; short z [256] = { 0 } ;
		snprintf (p1, sizeof (p1), "%s/seed.sd2", scratch) ; snprintf (p2, sizeof (p2), "%s/._seed.sd2", scratch) ;
		memset (&si, 0, sizeof (si)) ; si.format = SF_FORMAT_SD2 | SF_FORMAT_PCM_16 ; si.channels = 2 ; si.samplerate = 44100 ;
		s = sf_open (p1, SFM_WRITE, &si) ; if (s) { sf_write_short (s, z, 256) ; sf_close (s) ; }
		rl = slurp (p2, &rs) ; dl = slurp (p1, &dt) ; unlink (p1) ; unlink (p2) ;
		if (rl > 0 && dl > 0) for (k = 0 ; k < (vh_thorough ? 6000 : 1500) ; k++)
		{	SD2IN in ; unsigned char *mut ; long n = rl, p ; int j ;
			if (!vh_case ("SD2 resource fork variant %ld", k)) continue ;
			mut = malloc (rl + 1) ; memcpy (mut, rs, rl) ;
			if (k < rl && k < 600) n = k ;		/* truncations */
			else for (j = 0 ; j < 1 + vh_rint (3) ; j++)
			{	p = vh_rint ((int) rl) ;
				switch (vh_rint (4)) { case 0 : mut [p] = (unsigned char) vh_rnd () ; break ; case 1 : if (p + 2 <= rl) { uint16_t v = vh_rint (3) ? (uint16_t) vh_rnd () : 0xffff ; mut [p] = v >> 8 ; mut [p + 1] = v & 255 ; } break ;
					case 2 : if (p + 4 <= rl) { static const uint32_t hv [] = { 0, 1, 0x7fffffff, 0xffffffff, 0x80000000, 0xffff, 65536, 300, 1000 } ; uint32_t v = __builtin_bswap32 (hv [vh_rint (9)]) ; memcpy (mut + p, &v, 4) ; } break ;
					default : if (p + 4 <= rl) { uint32_t v ; memcpy (&v, mut + p, 4) ; v = __builtin_bswap32 (__builtin_bswap32 (v) + (uint32_t) (vh_rint (600) - 300)) ; memcpy (mut + p, &v, 4) ; } break ; }
				}
			in.rsrc = mut ; in.rlen = n ; in.data = dt ; in.dlen = dl ;
			vh_distinct (vh_fnv (0, mut, n) ^ (uint64_t) n) ;
			account ("C16|leak|sd2-resource-fork", scen_sd2, &in, 0) ;
			free (mut) ;
			}
		else if (vh_shard == 0) vh_note ("SD2 seed file could not be produced (resource fork %ld bytes, data %ld bytes)", rl, dl) ;
		free (rs) ; free (dt) ;
		}
	/* F. files as other programs write them (harness/foreign.h): whole, every chunk x every mutation, random mutants; read and read/write */
	{	int fi ; char key [200] ;
		for (fi = 0 ; fi < foreign_count () ; fi++)
		{	unsigned char *b = NULL ; long n = 0 ; const char *nm = foreign_make (fi, &b, &n) ; CORP cb ; int mi, mk, k, md ;
			cb.d = b ; cb.len = n ; cb.ch = 1 ; cb.meta = 2 ;
			cb.format = (!memcmp (b, "FORM", 4) ? SF_FORMAT_AIFF : !memcmp (b, "caff", 4) ? SF_FORMAT_CAF : (!memcmp (b, ".snd", 4) || !memcmp (b, "dns.", 4)) ? SF_FORMAT_AU : SF_FORMAT_WAV) | SF_FORMAT_PCM_16 ;
			for (k = 0 ; k < (vh_thorough ? 1500 : 60) ; k++)
			{	INPUT in ; MEMF mm ; char desc [300] ;
				if (!vh_case ("foreign file %s mutant %d", nm, k)) continue ;
				if (k == 0) { mv_from (&mm, b, (size_t) n) ; snprintf (desc, sizeof (desc), "unmodified") ; } else mutate (&mm, &cb, desc, sizeof (desc)) ;
				if (mm.len > 2000000) { mv_free (&mm) ; continue ; }
				in.d = mm.d ; in.len = (long) mm.len ; in.route = (k % 4 == 3) ; in.mode = (k % 3 == 0) ? SFM_RDWR : SFM_READ ;
				snprintf (key, sizeof (key), "C16|leak|foreign-input|%s|%s", nm, in.mode == SFM_RDWR ? "rdwr" : "read") ;
				vh_distinct (vh_fnv (vh_fnv (0, mm.d, (size_t) mm.len), &in.mode, 4) ^ (uint64_t) in.route ^ 0xF0) ; vh_stat ("foreign_inputs", 1) ;
				if (k == 0) vh_sample ("foreign file %s (%ld bytes): unmodified, %d mutants and every chunk x %d mutations, opened SFM_READ and SFM_RDWR, heap/fd/tmp accounted", nm, n, vh_thorough ? 1499 : 59, MUTATE_MARKER_KINDS) ;
				account (key, scen_input, &in, 0) ;
				mv_free (&mm) ;
				}
			for (mi = 0 ; mi < 40 ; mi++) for (mk = 0 ; mk < MUTATE_MARKER_KINDS ; mk++)
			{	INPUT in ; MEMF mm ; char desc [200] ;
				if (!vh_case ("foreign file %s chunk %d mutation %d", nm, mi, mk)) continue ;
				if (!mutate_marker (&mm, &cb, mi, mk, cb.len, desc, sizeof (desc))) continue ;
				for (md = 0 ; md < 2 ; md++)
				{	in.d = mm.d ; in.len = (long) mm.len ; in.route = 0 ; in.mode = md ? SFM_RDWR : SFM_READ ;
					snprintf (key, sizeof (key), "C16|leak|foreign-marker-mutation|%s|%s", nm, md ? "rdwr" : "read") ;
					vh_distinct (vh_fnv (vh_fnv (0, mm.d, (size_t) mm.len), &md, 4) ^ 0xF2) ; vh_stat ("foreign_chunk_mutations_run", 1) ;
					account (key, scen_input, &in, 0) ;
					}
				mv_free (&mm) ;
				}
			free (b) ;
			}
		}
	rmdir (scratch) ;
	return vh_finish () ;
}
