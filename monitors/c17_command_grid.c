/* C17 — sf_command never touches more than datasize bytes and queries are pure.
** Grid (enumerated completely): command id in {every id of the ranges the public header uses: 0x0FF0..0x1500, 0x2000..0x2200,
** the private test ids 0x6000..0x6010, and 0, 1, -1, 0x7fffffff} x datasize in {0..40, every struct size used by a command
** +-8, 100000} x data in {NULL, exact-size heap block: zeros / plausible struct / hostile 0xFF..} x handle in {NULL, read,
** write-empty, write-with-data, rdwr} x formats.  Oracles: AddressSanitizer on the exact-size block (a read or write of
** byte datasize+1 is a report), no NULL dereference, string commands NUL-terminate inside datasize, and for query
** commands (SFC_GET_*, SFC_CALC_*) the state digest (read-only hook + backing store) is unchanged.
*/
#include "vh.h"
#include <stddef.h>

static int sizes [400], nsizes ;
static void add_size (int s) { int i ; if (s < 0) return ; for (i = 0 ; i < nsizes ; i++) if (sizes [i] == s) return ; if (nsizes < 400) sizes [nsizes++] = s ; }
static void build_sizes (int ch)
{	static const size_t structs [] = { sizeof (int), sizeof (double), sizeof (sf_count_t), sizeof (SF_INFO), sizeof (SF_FORMAT_INFO), sizeof (SF_DITHER_INFO), sizeof (SF_EMBED_FILE_INFO), sizeof (SF_LOOP_INFO),
		sizeof (SF_INSTRUMENT), sizeof (SF_CUES), offsetof (SF_CUES, cue_points), offsetof (SF_CUES, cue_points) + 2 * sizeof (SF_CUE_POINT), sizeof (SF_BROADCAST_INFO), offsetof (SF_BROADCAST_INFO, coding_history), sizeof (SF_CART_INFO), offsetof (SF_CART_INFO, tag_text), offsetof (SF_CART_INFO, tag_text_size), offsetof (SF_BROADCAST_INFO, coding_history_size), 2048, 16384 + 602, 16384 + 2048 } ;
	int i, d ; nsizes = 0 ;
	for (i = 0 ; i <= 72 ; i++) add_size (i) ;		/* 0x40 and 0x41 are the SF_AMBISONIC_* constants: a getter that mistakes datasize for a value would take them */
	for (i = 0 ; i < (int) (sizeof (structs) / sizeof (structs [0])) ; i++) for (d = -8 ; d <= 8 ; d++) add_size ((int) structs [i] + d) ;
	for (d = -2 ; d <= 2 ; d++) { add_size (ch * (int) sizeof (int) + d) ; add_size (ch * (int) sizeof (double) + d) ; }
	add_size (100000) ;
}

static int is_query (int cmd)
{	switch (cmd)
	{	case SFC_GET_LIB_VERSION : case SFC_GET_LOG_INFO : case SFC_GET_CURRENT_SF_INFO : case SFC_GET_NORM_DOUBLE : case SFC_GET_NORM_FLOAT : case SFC_GET_SIMPLE_FORMAT_COUNT : case SFC_GET_SIMPLE_FORMAT :
		case SFC_GET_FORMAT_INFO : case SFC_GET_FORMAT_MAJOR_COUNT : case SFC_GET_FORMAT_MAJOR : case SFC_GET_FORMAT_SUBTYPE_COUNT : case SFC_GET_FORMAT_SUBTYPE : case SFC_CALC_SIGNAL_MAX : case SFC_CALC_NORM_SIGNAL_MAX :
		case SFC_CALC_MAX_ALL_CHANNELS : case SFC_CALC_NORM_MAX_ALL_CHANNELS : case SFC_GET_SIGNAL_MAX : case SFC_GET_MAX_ALL_CHANNELS : case SFC_GET_CLIPPING : case SFC_GET_EMBED_FILE_INFO : case SFC_GET_DITHER_INFO_COUNT :
		case SFC_GET_DITHER_INFO : case SFC_GET_LOOP_INFO : case SFC_GET_INSTRUMENT : case SFC_GET_CUE_COUNT : case SFC_GET_CUE : case SFC_GET_BROADCAST_INFO : case SFC_GET_CHANNEL_MAP_INFO : case SFC_GET_CART_INFO :
		case SFC_WAVEX_GET_AMBISONIC : case SFC_RAW_DATA_NEEDS_ENDSWAP : case SFC_GET_BITRATE_MODE : case SFC_GET_ORIGINAL_SAMPLERATE : case SFC_GET_OGG_STREAM_SERIALNO :
			return 1 ;
		}
	return 0 ;
}

typedef struct { int format, ch, state ; MEMF m ; SNDFILE *s ; } HND ;
static int settings_profile ;
static const char *stname [] = { "NULL", "read", "write-empty", "write-with-data", "rdwr" } ;

static uint64_t digest (HND *h)
{	SF_VERIF_STATE st ; uint64_t d ;
	if (!h->s) return 0 ;
	vh_state (h->s, &st) ;
	d = vh_fnv (0, &st.read_current, 8) ; d = vh_fnv (d, &st.write_current, 8) ; d = vh_fnv (d, &st.frames, 8) ; d = vh_fnv (d, &st.channels, 20) ;
	d = vh_fnv (d, &st.norm_float, 20) ; d = vh_fnv (d, &st.auto_header, 4) ; d = vh_fnv (d, &st.meta_digest, 8) ; d = vh_fnv (d, &st.have_written, 4) ; d = vh_fnv (d, &st.dataoffset, 16) ;
	d = vh_fnv (d, &h->m.len, 8) ; d = vh_fnv (d, h->m.d, (size_t) h->m.len) ;
	{	int amb = sf_command (h->s, SFC_WAVEX_GET_AMBISONIC, NULL, 0), clip = sf_command (h->s, SFC_GET_CLIPPING, NULL, 0) ; d = vh_fnv (d, &amb, 4) ; d = vh_fnv (d, &clip, 4) ; }	/* settings the hook does not carry */
	return d ;
}
static int hnd_open (HND *h, int format, int ch, int state, const MEMF *base)
{	SF_INFO si ; memset (&si, 0, sizeof (si)) ; memset (&h->m, 0, sizeof (h->m)) ; h->format = format ; h->ch = ch ; h->state = state ; h->s = NULL ;
	if (state == 0) return 0 ;
	if (state == 2 || state == 3) { si.format = format ; si.channels = ch ; si.samplerate = 8000 ; h->s = sf_open_virtual (&MVIO, SFM_WRITE, &si, &h->m) ; if (h->s && state == 3) { short b [64] = { 1, 2, 3 } ; sf_write_short (h->s, b, 64 / ch * ch) ; } }
	else { mv_copy (&h->m, base) ; if ((format & SF_FORMAT_TYPEMASK) == SF_FORMAT_RAW) { si.format = format ; si.channels = ch ; si.samplerate = 8000 ; } h->s = sf_open_virtual (&MVIO, state == 1 ? SFM_READ : SFM_RDWR, &si, &h->m) ; if (h->s && state == 1) { short b [32] ; sf_read_short (h->s, b, 32 / ch * ch) ; } }
	/* settings profile: queries must preserve NON-default settings too (a save/restore through the wrong getter is invisible when all flags are equal) */
	if (h->s) switch (settings_profile)
	{	case 1 : sf_command (h->s, SFC_SET_NORM_DOUBLE, NULL, SF_FALSE) ; break ;
		case 2 : sf_command (h->s, SFC_SET_NORM_FLOAT, NULL, SF_FALSE) ; sf_command (h->s, SFC_SET_CLIPPING, NULL, SF_TRUE) ; sf_command (h->s, SFC_SET_SCALE_FLOAT_INT_READ, NULL, SF_TRUE) ; break ;
		}
	return h->s ? 0 : -1 ;
}
static void hnd_close (HND *h) { if (h->s) sf_close (h->s) ; mv_free (&h->m) ; h->s = NULL ; }

static void fill (unsigned char *p, int n, int kind, int cmd)
{	if (n <= 0) return ;
	if (kind == 0) { memset (p, 0, n) ; return ; }
	if (kind == 2) { memset (p, 0xFF, n) ; return ; }
	memset (p, 0, n) ;		/* kind 1: plausible contents with hostile length fields */
	switch (cmd)
	{	case SFC_SET_BROADCAST_INFO : if (n >= (int) offsetof (SF_BROADCAST_INFO, coding_history)) { static const uint32_t hv [] = { 0, 1, 255, 256, 0x7fffffff, 0xffffffff, 16000 } ; uint32_t v = hv [vh_rint (7)] ; if (vh_rint (2)) v = (uint32_t) (n - (int) offsetof (SF_BROADCAST_INFO, coding_history) + vh_rint (3) - 1) ; memcpy (p + offsetof (SF_BROADCAST_INFO, coding_history_size), &v, 4) ; memset (p, 'x', 40) ; } break ;
		case SFC_SET_CART_INFO : if (n >= (int) offsetof (SF_CART_INFO, tag_text)) { static const uint32_t hv [] = { 0, 1, 255, 256, 0x7fffffff, 0xffffffff, 16000 } ; uint32_t v = hv [vh_rint (7)] ; if (vh_rint (2)) v = (uint32_t) (n - (int) offsetof (SF_CART_INFO, tag_text) + vh_rint (3) - 1) ; memcpy (p + offsetof (SF_CART_INFO, tag_text_size), &v, 4) ; memset (p + 4, 'y', 30) ; } break ;
		case SFC_SET_CUE : if (n >= 4) { static const uint32_t hv [] = { 0, 1, 2, 99, 100, 101, 0x7fffffff, 0xffffffff } ; uint32_t v = hv [vh_rint (8)] ; memcpy (p, &v, 4) ; } break ;
		case SFC_SET_INSTRUMENT : if (n >= (int) sizeof (SF_INSTRUMENT)) { SF_INSTRUMENT *in = (SF_INSTRUMENT *) p ; in->loop_count = vh_rint (3) ? vh_rint (17) : 0x7fffffff ; in->basenote = 60 ; } break ;
		case SFC_GET_FORMAT_MAJOR : case SFC_GET_FORMAT_SUBTYPE : case SFC_GET_SIMPLE_FORMAT : case SFC_GET_FORMAT_INFO : if (n >= 4) { int v = vh_rint (3) ? vh_rint (30) : (int) vh_rnd () ; memcpy (p, &v, 4) ; } break ;
		case SFC_FILE_TRUNCATE : case SFC_SET_RAW_START_OFFSET : if (n >= 8) { sf_count_t v = vh_rint (3) ? vh_rint (50) : (sf_count_t) vh_rnd () ; memcpy (p, &v, 8) ; } break ;
		case SFC_SET_DITHER_ON_WRITE : case SFC_SET_DITHER_ON_READ : if (n >= (int) sizeof (SF_DITHER_INFO)) { SF_DITHER_INFO *di = (SF_DITHER_INFO *) p ; di->type = SFD_WHITE ; di->level = 0.1 ; } break ;
		default : { int i ; for (i = 0 ; i < n && i < 64 ; i++) p [i] = (unsigned char) (vh_rint (4) ? 0 : vh_rnd ()) ; } break ;
		}
}

static void sweep (int cmd, int format, int ch, int state, const MEMF *base, int full)
{	HND h ; int si, kind ; const char *fn = vh_fname (format) ;
	if (hnd_open (&h, format, ch, state, base) != 0) return ;
	for (si = 0 ; si < nsizes ; si++)
	{	int n = sizes [si] ;
		if (!full && !(n <= 9 || n == 16 || n == 24 || n == (int) sizeof (SF_INFO) || n == 100000)) continue ;
		for (kind = -1 ; kind < 3 ; kind++)		/* -1: NULL data */
		{	unsigned char *blk = NULL ; uint64_t d0 = 0, d1 ; int rc, q = is_query (cmd) ;
			if (kind >= 0) { blk = malloc (n ? n : 1) ; if (n == 0) { free (blk) ; blk = malloc (0) ; if (!blk) blk = malloc (1) ; } fill (blk, n, kind, cmd) ; if ((cmd == SFC_GET_LIB_VERSION || cmd == SFC_GET_LOG_INFO) && n > 0) memset (blk, 0x5A, n) ; }
			if (q) d0 = digest (&h) ;
			rc = sf_command (h.s, cmd, blk, n) ;
			vh_stat ("commands_issued", 1) ;
			if ((cmd == SFC_GET_LIB_VERSION || cmd == SFC_GET_LOG_INFO) && blk && n >= 1 && (h.s || cmd == SFC_GET_LIB_VERSION) && memchr (blk, 0, n) == NULL)
				vh_viol (vh_key ("C17|string-not-terminated|0x%x", cmd), "datasize %d: no NUL inside the caller's buffer (rc %d)", n, rc) ;
			if (q && h.s)
			{	d1 = digest (&h) ;
				if (d0 != d1) vh_viol (vh_key ("C17|query-changes-state|0x%x|%s|%s", cmd, fn, stname [state]), "datasize %d, data %s: positions/SF_INFO/settings/metadata/file bytes differ after the query (rc %d)", n, kind < 0 ? "NULL" : kind == 0 ? "zeros" : kind == 1 ? "plausible" : "0xFF", rc) ;
				}
			if (h.s) vh_check_inv (h.s, "sf_command") ;
			free (blk) ;
			}
		}
	hnd_close (&h) ;
}

int main (int argc, char **argv)
{	static const int fmts [][2] = { { SF_FORMAT_WAV | SF_FORMAT_PCM_16, 2 }, { SF_FORMAT_WAV | SF_FORMAT_FLOAT, 2 }, { SF_FORMAT_WAVEX | SF_FORMAT_PCM_24, 2 }, { SF_FORMAT_RF64 | SF_FORMAT_PCM_16, 2 }, { SF_FORMAT_AIFF | SF_FORMAT_PCM_16, 2 },
		{ SF_FORMAT_AIFF | SF_FORMAT_FLOAT, 1 }, { SF_FORMAT_CAF | SF_FORMAT_PCM_16, 2 }, { SF_FORMAT_CAF | SF_FORMAT_DOUBLE, 3 }, { SF_FORMAT_RAW | SF_FORMAT_PCM_16, 2 }, { SF_FORMAT_RAW | SF_FORMAT_FLOAT, 1 }, { SF_FORMAT_WAVEX | SF_FORMAT_FLOAT, 6 }, { SF_FORMAT_RF64 | SF_FORMAT_FLOAT, 1 } } ;
	int f, cmd, st, nf ; static int ids [4000] ; int nids = 0, i ;
	vh_init (argc, argv, "c17_command_grid", "C17") ;
	for (i = 0x0FF0 ; i <= 0x1500 ; i++) ids [nids++] = i ;
	for (i = 0x2000 ; i <= 0x2200 ; i++) ids [nids++] = i ;
	for (i = 0x6000 ; i <= 0x6010 ; i++) ids [nids++] = i ;
	ids [nids++] = 0 ; ids [nids++] = 1 ; ids [nids++] = -1 ; ids [nids++] = 0x7fffffff ; ids [nids++] = 0x10000 ; ids [nids++] = 0x1003 | 0x10000 ;
	nf = vh_thorough ? 12 : 8 ;
	for (f = 0 ; f < nf ; f++)
	{	int format = fmts [f][0], ch = fmts [f][1] ; MEMF base ;
		SNDFILE *w ; memset (&base, 0, sizeof (base)) ;
		/* a base file with metadata, so that the GET commands have something to copy */
		w = vh_open_w (&base, format, ch, 8000, NULL) ;
		if (w) { SF_CUES cu ; SF_INSTRUMENT in ; static SF_BROADCAST_INFO bi ; static SF_CART_INFO ca ; short b [512] = { 5, -5, 100 } ; memset (&cu, 0, sizeof (cu)) ; cu.cue_count = 4 ; memset (&in, 0, sizeof (in)) ; in.basenote = 60 ; in.loop_count = 1 ; in.loops [0].mode = SF_LOOP_FORWARD ; in.loops [0].end = 9 ;
			memset (&bi, 0, sizeof (bi)) ; snprintf (bi.description, 256, "d") ; snprintf (bi.coding_history, 256, "A=PCM\r\n") ; bi.coding_history_size = 7 ; memset (&ca, 0, sizeof (ca)) ; snprintf (ca.title, 64, "t") ; snprintf (ca.tag_text, 256, "tag text") ; ca.tag_text_size = 8 ;
			sf_set_string (w, SF_STR_TITLE, "title") ; sf_command (w, SFC_SET_CUE, &cu, sizeof (cu)) ; sf_command (w, SFC_SET_INSTRUMENT, &in, sizeof (in)) ; sf_command (w, SFC_SET_BROADCAST_INFO, &bi, sizeof (bi)) ; sf_command (w, SFC_SET_CART_INFO, &ca, sizeof (ca)) ;
			{ int cm [8] = { SF_CHANNEL_MAP_LEFT, SF_CHANNEL_MAP_RIGHT, SF_CHANNEL_MAP_CENTER, SF_CHANNEL_MAP_LFE, SF_CHANNEL_MAP_REAR_LEFT, SF_CHANNEL_MAP_REAR_RIGHT } ; sf_command (w, SFC_SET_CHANNEL_MAP_INFO, cm, ch * sizeof (int)) ; }
			sf_write_short (w, b, 512 / ch * ch) ; sf_close (w) ; }
		build_sizes (ch) ;
		for (i = 0 ; i < nids ; i++) for (st = 0 ; st < 5 ; st++)
		{	int defined ;
			cmd = ids [i] ;
			defined = (cmd >= 0x1000 && cmd <= 0x1401 && (cmd & 0xFF) < 0x02) || is_query (cmd) || (cmd >= 0x1000 && cmd <= 0x1320) || (cmd >= 0x2000 && cmd <= 0x2004) || (cmd >= 0x20F0 && cmd <= 0x2102) || cmd == 0x6001 || cmd == 0x6002 ;
			if (st == 0 && f > 0) continue ;			/* NULL handle does not depend on the format */
			if (!vh_case ("cmd=0x%x %s ch=%d handle=%s", cmd, vh_fname (format), ch, stname [st])) continue ;
			vh_distinct (((uint64_t) (unsigned) cmd << 20) ^ ((uint64_t) f << 8) ^ (uint64_t) st) ;
			if (i % 97 == 3 && st == 1) vh_sample ("command 0x%x on a %s handle of %s ch=%d: %d datasize values x {NULL, zeros, plausible/hostile struct, 0xFF} exact-size blocks", cmd, stname [st], vh_fname (format), ch, defined ? nsizes : 14) ;
			settings_profile = 0 ; sweep (cmd, format, ch, st, &base, defined) ;
			if (is_query (cmd) && st != 0) { settings_profile = 1 ; sweep (cmd, format, ch, st, &base, 0) ; settings_profile = 2 ; sweep (cmd, format, ch, st, &base, 0) ; settings_profile = 0 ; }
			}
		mv_free (&base) ;
		}
	return vh_finish () ;
}
