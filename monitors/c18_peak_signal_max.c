/* C18 — PEAK data and signal-max commands equal the true maxima.
** Part A: float/double files in PEAK-capable containers are written with planted maxima through all four write types and
**         several partitions; after re-open SFC_GET_SIGNAL_MAX / SFC_GET_MAX_ALL_CHANNELS must equal the maxima computed by
**         the harness, and the PEAK chunk itself (parsed by the harness) must hold value and FIRST position per channel.
** Part B: SFC_CALC_SIGNAL_MAX, _NORM_, _MAX_ALL_CHANNELS, _NORM_MAX_ALL_CHANNELS on every seekable encoding must equal the
**         maximum of the stored samples (from the codes the harness wrote for PCM/float, from an independent full read for
**         lossy codecs) and must leave read position and normalisation settings untouched.
*/
#include "vh.h"

static uint32_t be32 (const unsigned char *p) { return (uint32_t) p [0] << 24 | p [1] << 16 | p [2] << 8 | p [3] ; }
static uint32_t le32 (const unsigned char *p) { return (uint32_t) p [3] << 24 | p [2] << 16 | p [1] << 8 | p [0] ; }

/* locate the PEAK data in the file image outside the audio data: returns per-channel value/position */
static int parse_peak (const MEMF *m, int maj, int big, int ch, sf_count_t doff, sf_count_t dlen, float *val, uint64_t *pos)
{	sf_count_t i ; int c ;
	for (i = 8 ; i + 16 <= m->len ; i++)
	{	if (i >= doff && i < doff + dlen) { i = doff + dlen - 1 ; continue ; }
		if (maj == SF_FORMAT_CAF)
		{	if (memcmp (m->d + i, "peak", 4)) continue ;
			if (i + 12 + 4 + ch * 12 > m->len) return 0 ;
			for (c = 0 ; c < ch ; c++) { const unsigned char *p = m->d + i + 12 + 4 + c * 12 ; uint32_t v = be32 (p) ; memcpy (&val [c], &v, 4) ; pos [c] = ((uint64_t) be32 (p + 4) << 32) | be32 (p + 8) ; }
			return 1 ;
			}
		if (memcmp (m->d + i, "PEAK", 4)) continue ;
		if (i + 16 + ch * 8 > m->len) return 0 ;
		for (c = 0 ; c < ch ; c++) { const unsigned char *p = m->d + i + 16 + c * 8 ; uint32_t v = big ? be32 (p) : le32 (p) ; memcpy (&val [c], &v, 4) ; pos [c] = big ? be32 (p + 4) : le32 (p + 4) ; }
		return 1 ;
		}
	return 0 ;
}

static void peak_case (int format, int ch, int t, int seqkind, int part)
{	MEMF m ; SNDFILE *s ; SF_INFO ri ; SF_VERIF_STATE st ; const char *fn = vh_fname (format) ; int maj = format & SF_FORMAT_TYPEMASK, isdbl = (format & SF_FORMAT_SUBMASK) == SF_FORMAT_DOUBLE ;
	long N = 700 + vh_rint (vh_thorough && vh_rint (4) == 0 ? 60000 : 5000), i, done ; int c, ts = vh_tsize [t] ; char *buf = vh_guard_alloc ((size_t) N * ch * 8, 0) ; double tmax [16] ; long tpos [16] ; char q [48] ;
	snprintf (q, sizeof (q), "%s%s", (t == T_FLOAT && !isdbl) || (t == T_DOUBLE && isdbl) ? "" : "|converting-write", (2048 % ch) ? "|ch-not-dividing-2048" : "") ;
	/* the sequence: background noise well below the planted per-channel maxima */
	for (c = 0 ; c < ch ; c++) { tmax [c] = 0 ; tpos [c] = 0 ; }
	for (i = 0 ; i < N ; i++) for (c = 0 ; c < ch ; c++)
	{	double v = (seqkind == 5) ? 0.0 : ((int) (vh_rnd () % 2001) - 1000) / 4000.0 ;		/* |v| <= 0.25 */
		long pk = seqkind == 0 ? 0 : seqkind == 1 ? N - 1 : seqkind == 2 ? (2048 / ch) + c : seqkind == 3 ? N / 2 + 3 * c : (long) ((c * 977 + 13) % N) ;
		if (seqkind != 5 && i == pk) v = (c & 1) ? -0.9 + 0.01 * c : 0.8 + 0.01 * c ;		/* planted maximum (negative on odd channels) */
		if (seqkind == 4 && (i == pk + 7 || i == pk + 300) && i < N) v = (c & 1) ? -0.9 + 0.01 * c : 0.8 + 0.01 * c ;	/* ties later: the FIRST position must be kept */
		switch (t)
		{	case T_SHORT : { short sv = (short) lrint (v * 30000) ; ((short *) buf) [i * ch + c] = sv ; v = sv ; } break ;
			case T_INT : { int iv = (int) lrint (v * 30000) * 65536 ; ((int *) buf) [i * ch + c] = iv ; v = isdbl ? (double) iv : (double) (float) iv ; } break ;
			case T_FLOAT : { float fv = (float) v ; ((float *) buf) [i * ch + c] = fv ; v = fv ; } break ;
			default : ((double *) buf) [i * ch + c] = v ; if (!isdbl) v = (float) v ; break ;
			}
		if (fabs (v) > tmax [c]) { tmax [c] = fabs (v) ; tpos [c] = i ; }
		}
	memset (&m, 0, sizeof (m)) ;
	s = vh_open_w (&m, format, ch, 44100, NULL) ; if (!s) { free (buf) ; return ; }
	if (maj == SF_FORMAT_RF64) sf_command (s, SFC_SET_ADD_PEAK_CHUNK, NULL, SF_TRUE) ;
	for (done = 0 ; done < N ; )
	{	long k ; switch (part) { case 0 : k = N ; break ; case 1 : k = 1 + vh_rint (9) ; break ; case 2 : k = 2048 / ch + vh_rint (3) - 1 ; break ; case 3 : k = 1 + vh_rint (3000) ; break ; case 4 : k = (done == 0) ? 1 : N ; break ; default : k = 4097 / ch + 1 + vh_rint (7) ; }
		if (k < 1) k = 1 ; if (k > N - done) k = N - done ;
		if (vh_write_t (s, t, vh_rint (2), buf + done * ch * ts, k * ch, ch) != k * ch) { vh_viol (vh_key ("C18|write-failed|%s", fn), "write failed") ; sf_close (s) ; free (buf) ; mv_free (&m) ; return ; }
		done += k ;
		}
	sf_close (s) ;
	s = vh_open_r (&m, format, ch, 44100, &ri) ;
	if (!s) { vh_viol (vh_key ("C18|reopen-failed|%s", fn), "%s", sf_strerror (NULL)) ; free (buf) ; mv_free (&m) ; return ; }
	vh_state (s, &st) ;
	{	double all [16], one = -1, want = 0 ; int rc1, rc2 ; float pv [16] ; uint64_t pp [16] ;
		for (c = 0 ; c < ch ; c++) if (tmax [c] > want) want = tmax [c] ;
		rc1 = sf_command (s, SFC_GET_SIGNAL_MAX, &one, sizeof (one)) ; rc2 = sf_command (s, SFC_GET_MAX_ALL_CHANNELS, all, ch * sizeof (double)) ;
		vh_stat ("peak_files_checked", 1) ;
		if (rc1 != SF_TRUE || rc2 != SF_TRUE) vh_viol (vh_key ("C18|peak-info-missing|%s", fn), "SFC_GET_SIGNAL_MAX rc %d, SFC_GET_MAX_ALL_CHANNELS rc %d on a float file of a PEAK container", rc1, rc2) ;
		else
		{	if ((float) one != (float) want) vh_viol (vh_key ("C18|signal-max|%s%s", fn, q), "SFC_GET_SIGNAL_MAX = %.9g, true maximum %.9g (ch=%d, %s writes, sequence %d, partition %d)", one, want, ch, vh_tname [t], seqkind, part) ;
			for (c = 0 ; c < ch ; c++) if ((float) all [c] != (float) tmax [c]) { vh_viol (vh_key ("C18|channel-max|%s%s", fn, q), "channel %d of %d: SFC_GET_MAX_ALL_CHANNELS %.9g, true %.9g (%s writes, sequence %d, partition %d)", c, ch, all [c], tmax [c], vh_tname [t], seqkind, part) ; break ; }
			}
		if (!parse_peak (&m, maj, maj == SF_FORMAT_AIFF || maj == SF_FORMAT_CAF, ch, st.dataoffset, st.datalength, pv, pp)) vh_viol (vh_key ("C18|peak-chunk-not-found|%s", fn), "no PEAK chunk in the file image") ;
		else for (c = 0 ; c < ch ; c++)
		{	if (pv [c] != (float) tmax [c]) { vh_viol (vh_key ("C18|peak-chunk-value|%s%s", fn, q), "channel %d: PEAK chunk value %.9g, true %.9g", c, pv [c], tmax [c]) ; break ; }
			if (seqkind != 5 && pp [c] != (uint64_t) tpos [c]) { vh_viol (vh_key ("C18|peak-chunk-position|%s%s", fn, q), "channel %d of %d: PEAK chunk position %llu, first frame attaining the maximum is %ld (N=%ld, %s writes, sequence %d, partition %d)", c, ch, (unsigned long long) pp [c], tpos [c], N, vh_tname [t], seqkind, part) ; break ; }
			}
		}
	sf_close (s) ; free (buf) ; mv_free (&m) ;
}

static void calc_case (int format, int ch)
{	MEMF m ; SNDFILE *s, *s2 ; SF_INFO ri ; const char *fn = vh_fname (format) ; long N = 1500 + vh_rint (3000), F, i ; int c, k ; double *all, *seqref [2] = { NULL, NULL }, tn [16], tr [16], on = 0, orr = 0 ; long seqlen = 0 ;
	if (vh_make_file (&m, format, ch, 8000, N, 1 + vh_rint (2))) { mv_free (&m) ; return ; }
	s2 = vh_open_r (&m, format, ch, 8000, &ri) ; if (!s2) { mv_free (&m) ; return ; }
	if (!ri.seekable) { sf_close (s2) ; mv_free (&m) ; vh_statf (1, "not_seekable:%s", fn) ; return ; }
	F = (long) ri.frames ; all = malloc ((size_t) (F + 8) * ch * sizeof (double)) ; seqref [0] = calloc ((size_t) (F + 8) * ch, sizeof (double)) ; seqref [1] = calloc ((size_t) (F + 8) * ch, sizeof (double)) ;
	/* the true maxima of the STORED samples, from an independent handle: normalised and raw */
	for (k = 0 ; k < 2 ; k++)
	{	long g ; sf_seek (s2, 0, SEEK_SET) ; sf_command (s2, SFC_SET_NORM_DOUBLE, NULL, k ? SF_FALSE : SF_TRUE) ; g = (long) sf_readf_double (s2, all, F) ; memcpy (seqref [k], all, (size_t) (g > 0 ? g : 0) * ch * sizeof (double)) ; seqlen = g ;
		for (c = 0 ; c < ch ; c++) (k ? tr : tn) [c] = 0 ;
		for (i = 0 ; i < g ; i++) for (c = 0 ; c < ch ; c++) { double a = fabs (all [i * ch + c]) ; if (a > (k ? tr : tn) [c]) (k ? tr : tn) [c] = a ; }
		}
	sf_close (s2) ; free (all) ;
	for (c = 0 ; c < ch ; c++) { if (tn [c] > on) on = tn [c] ; if (tr [c] > orr) orr = tr [c] ; }
	for (k = 0 ; k < 12 ; k++)
	{	int prof = k % 4, cmdi = k / 4 ; long p0 = (k % 3 == 0) ? 0 : (k % 3 == 1) ? (F > 2 ? 1 + vh_rint ((int) F - 1) : F / 2) : F ; double one = -1, per [16] ; SF_VERIF_STATE a, b ; int nd, nf ; short dummy [64] ;
		s = vh_open_r (&m, format, ch, 8000, &ri) ; if (!s) break ;
		sf_command (s, SFC_SET_NORM_DOUBLE, NULL, (prof & 1) ? SF_FALSE : SF_TRUE) ; sf_command (s, SFC_SET_NORM_FLOAT, NULL, (prof & 2) ? SF_FALSE : SF_TRUE) ;
		if (p0) { if (sf_seek (s, p0, SEEK_SET) != p0) { sf_close (s) ; continue ; } } else sf_readf_short (s, dummy, 0) ;
		vh_state (s, &a) ; nd = sf_command (s, SFC_GET_NORM_DOUBLE, NULL, 0) ; nf = sf_command (s, SFC_GET_NORM_FLOAT, NULL, 0) ;
		switch (cmdi)
		{	case 0 : sf_command (s, SFC_CALC_SIGNAL_MAX, &one, sizeof (one)) ; if (one != orr) vh_viol (vh_key ("C18|calc-signal-max|%s", fn), "SFC_CALC_SIGNAL_MAX = %.12g at position %ld, true maximum of the stored samples %.12g", one, p0, orr) ;
					sf_command (s, SFC_CALC_NORM_SIGNAL_MAX, &one, sizeof (one)) ; if (one != on) vh_viol (vh_key ("C18|calc-norm-signal-max|%s", fn), "SFC_CALC_NORM_SIGNAL_MAX = %.12g, true %.12g", one, on) ; break ;
			case 1 : sf_command (s, SFC_CALC_MAX_ALL_CHANNELS, per, ch * sizeof (double)) ; for (c = 0 ; c < ch ; c++) if (per [c] != tr [c]) { vh_viol (vh_key ("C18|calc-max-all-channels|%s", fn), "channel %d: %.12g, true %.12g", c, per [c], tr [c]) ; break ; } break ;
			default : sf_command (s, SFC_CALC_NORM_MAX_ALL_CHANNELS, per, ch * sizeof (double)) ; for (c = 0 ; c < ch ; c++) if (per [c] != tn [c]) { vh_viol (vh_key ("C18|calc-norm-max-all-channels|%s", fn), "channel %d: %.12g, true %.12g", c, per [c], tn [c]) ; break ; } break ;
			}
		vh_state (s, &b) ; vh_stat ("calc_commands_checked", 1) ;
		if (b.read_current != a.read_current) vh_viol (vh_key ("C18|calc-moves-position|%s", fn), "read position %lld before, %lld after the CALC command", (long long) a.read_current, (long long) b.read_current) ;
		if (sf_command (s, SFC_GET_NORM_DOUBLE, NULL, 0) != nd || sf_command (s, SFC_GET_NORM_FLOAT, NULL, 0) != nf) vh_viol (vh_key ("C18|calc-changes-norm|%s", fn), "norm_double %d -> %d, norm_float %d -> %d across the CALC command", nd, sf_command (s, SFC_GET_NORM_DOUBLE, NULL, 0), nf, sf_command (s, SFC_GET_NORM_FLOAT, NULL, 0)) ;
		/* and the next read really continues at p0 with the same scaling: compared with a twin handle that went through the same calls without the CALC command */
		{	double r1 [16], r2 [16] ; SNDFILE *s3 ; SF_INFO r3 ; sf_count_t g1 = sf_readf_double (s, r1, 1), g2 ;
			s3 = vh_open_r (&m, format, ch, 8000, &r3) ; sf_command (s3, SFC_SET_NORM_DOUBLE, NULL, (prof & 1) ? SF_FALSE : SF_TRUE) ; sf_command (s3, SFC_SET_NORM_FLOAT, NULL, (prof & 2) ? SF_FALSE : SF_TRUE) ;
			if (p0) sf_seek (s3, p0, SEEK_SET) ; else sf_readf_short (s3, dummy, 0) ;
			g2 = sf_readf_double (s3, r2, 1) ; sf_close (s3) ;
			if (g1 != g2 || (g1 == 1 && memcmp (r1, r2, ch * sizeof (double)))) vh_viol (vh_key ("C18|read-after-calc-differs|%s", fn), "the frame read after the CALC command (command group %d, norm profile %d) at position %ld of %ld differs from the same read on a twin handle without the command: %lld frame(s) %.9g vs %lld frame(s) %.9g (sequential read of the file: %.9g)", cmdi, prof, p0, F, (long long) g1, r1 [0], (long long) g2, r2 [0], p0 < seqlen ? seqref [prof & 1][p0 * ch] : 0.0) ;
			}
		sf_close (s) ;
		}
	free (seqref [0]) ; free (seqref [1]) ; mv_free (&m) ;
}

int main (int argc, char **argv)
{	static const int majors [] = { SF_FORMAT_WAV, SF_FORMAT_WAVEX, SF_FORMAT_AIFF, SF_FORMAT_CAF, SF_FORMAT_RF64 } ; static const int chans [] = { 1, 2, 5, 8, 3, 4, 6, 7 } ;
	int a, b, c, t, sq, p, f, rep, nch, nrep ;
	vh_init (argc, argv, "c18_peak_signal_max", "C18") ;
	vh_enum_formats () ;
	nch = vh_thorough ? 8 : 5 ; nrep = vh_thorough ? 60 : 20 ;
	for (a = 0 ; a < 5 ; a++) for (b = 0 ; b < 2 ; b++) for (c = 0 ; c < nch ; c++) for (t = 0 ; t < T_N ; t++) for (sq = 0 ; sq < 6 ; sq++) for (p = 0 ; p < 6 ; p++) for (rep = 0 ; rep < nrep ; rep++)
	{	int format = majors [a] | (b ? SF_FORMAT_DOUBLE : SF_FORMAT_FLOAT) ;
		if (!vh_accepts (format, chans [c], 44100)) continue ;
		if (rep > 0 && (p == 0 || p == 4) && sq == 5) continue ;		/* nothing random in these */
		if (!vh_case ("%s ch=%d write=%s seq=%d part=%d rep=%d", vh_fname (format), chans [c], vh_tname [t], sq, p, rep)) continue ;
		vh_distinct (vh_fnv (0, &format, 4) ^ ((uint64_t) chans [c] << 33) ^ ((uint64_t) t << 40) ^ ((uint64_t) sq << 44) ^ ((uint64_t) p << 48) ^ vh_rs) ;
		vh_statf (1, "fmt:%s", vh_fname (format)) ;
		if ((sq + p) % 5 == 2 && rep == 0) vh_sample ("%s ch=%d: %s writes, sequence %d (0 max at first frame, 1 last frame, 2 at the 2048-item staging boundary, 3 middle, 4 tied maxima, 5 silence), partition %d", vh_fname (format), chans [c], vh_tname [t], sq, p) ;
		peak_case (format, chans [c], t, sq, p) ;
		}
	for (f = 0 ; f < vh_nfmts ; f++) for (c = 1 ; c <= (vh_thorough ? 4 : 2) ; c++) for (rep = 0 ; rep < (vh_thorough ? 40 : 8) ; rep++)
	{	int format = vh_fmts [f].format ;
		if (vh_fmts [f].major == SF_FORMAT_SD2 || !vh_accepts (format, c, 8000)) continue ;
		if (!vh_case ("%s ch=%d CALC commands rep=%d", vh_fname (format), c, rep)) continue ;
		vh_distinct (vh_fnv (0, &format, 4) ^ ((uint64_t) c << 33) ^ 0xCA1C ^ vh_rs) ;
		calc_case (format, c) ;
		}
	return vh_finish () ;
}
