/* C19 — handles are isolated from each other and from earlier library use.
** A script is a deterministic per-handle workload on its own backing store.  Its transcript (return value of every call,
** digest of every buffer the library filled, sf_error after every call, digest of the final bytes) is recorded twice:
**   solo        : alone in a FRESH process (forked from a pristine zygote that has never called the library), and
**   interleaved : in this process, its calls merged with those of 1..7 other scripts (round-robin, seeded random merges,
**                 and ALL merges of two 6-step scripts), after the process has already run many other scripts.
** Oracle: the two transcripts are equal, step by step.  The clock is pinned (PEAK timestamps), TMPDIR is private.
*/
#include <stddef.h>
#include "vh.h"
#include <sys/time.h>
#include <sys/wait.h>

static time_t fake_now = 1700000000 ;
time_t __wrap_time (time_t *t) { if (t) *t = fake_now ; return fake_now ; }
int __wrap_gettimeofday (struct timeval *tv, void *tz) { (void) tz ; if (tv) { tv->tv_sec = fake_now ; tv->tv_usec = 4242 ; } return 0 ; }

enum { K_WRITE, K_READ, K_RDWR, K_ERRORS, K_PATHWRITE, K_SD2, K_N } ;
static const char *kname [] = { "write", "read", "rdwr", "errors", "path-write", "sd2" } ;
#define MAXSTEPS 24
typedef struct { int kind, format, ch, nsteps, rate ; uint64_t seed ; } SPEC ;
typedef struct
{	SPEC sp ; int step, done ; uint64_t rs ; SNDFILE *s ; MEMF m ; char path [360] ; int t ; long wrote ;
	uint64_t tr [MAXSTEPS + 4] ; char what [MAXSTEPS + 4][40] ; int ntr ;
} INST ;

static char scratch [300] ;
static uint64_t inst_rnd (INST *in) { in->rs ^= in->rs << 13 ; in->rs ^= in->rs >> 7 ; in->rs ^= in->rs << 17 ; return in->rs ; }
static void rec (INST *in, const char *what, long rc, const void *buf, size_t n)
{	uint64_t h = vh_fnv (0, &rc, sizeof (rc)) ; int e = in->s ? sf_error (in->s) : -1 ;
	if (buf && n) h = vh_fnv (h, buf, n) ; h = vh_fnv (h, &e, sizeof (e)) ;
	if (in->ntr < MAXSTEPS + 4) { in->tr [in->ntr] = h ; snprintf (in->what [in->ntr], 40, "%s", what) ; in->ntr++ ; }
}
static void gen_frames (INST *in, void *buf, int t, int frames)
{	int i, n = frames * in->sp.ch ; for (i = 0 ; i < n ; i++) { double v = 0.5 * sin ((in->wrote * in->sp.ch + i) * 0.02) + ((int) (inst_rnd (in) % 201) - 100) / 1000.0 ;
		if (t >= T_FLOAT && inst_rnd (in) % 48 == 0) { static const double sp [] = { 1e-35, -1e-33, -0.0, 3e-39, 1e-30, -2e-38, 1.0e-45 } ; v = sp [inst_rnd (in) % 7] ; }		/* tiny, denormal and negative-zero values: where float serialisers differ */
		switch (t) { case T_SHORT : ((short *) buf) [i] = (short) (v * 30000) ; break ; case T_INT : ((int *) buf) [i] = (int) (v * 2e9) ; break ; case T_FLOAT : ((float *) buf) [i] = (float) v ; break ; default : ((double *) buf) [i] = v ; } } }

static void inst_init (INST *in, const SPEC *sp, int slot)
{	memset (in, 0, sizeof (*in)) ; in->sp = *sp ; in->rs = vh_mix (sp->seed) | 1 ; in->t = (int) (sp->seed % T_N) ;
	/* the file NAME is the same for the solo and the interleaved run (SVX/MPC2K record it); only the directory differs */
	if (sp->kind == K_SD2 || sp->kind == K_PATHWRITE) { char d [330] ; snprintf (d, sizeof (d), "%s/s%d_%d", scratch, (int) getpid (), slot) ; mkdir (d, 0700) ; snprintf (in->path, sizeof (in->path), "%s/out.%s", d, sp->kind == K_SD2 ? "sd2" : "dat") ; }
}
/* one metadata command of a write script, chosen by the script's seed; what the handle then reports back is part of its transcript (the library completes some of these
** records itself: the BWF coding history gets a line built from this handle's rate, width and channel count) */
static void meta_step (INST *in)
{	const SPEC *sp = &in->sp ; int rc ;
	switch ((int) ((sp->seed >> 24) & 3))
	{	case 0 :
		{	static SF_BROADCAST_INFO bi ; memset (&bi, 0, sizeof (bi)) ; snprintf (bi.description, sizeof (bi.description), "isolation %d", (int) (sp->seed & 0xff)) ; snprintf (bi.originator, sizeof (bi.originator), "c19") ;
			if (sp->seed & 0x8000000) bi.coding_history_size = (uint32_t) snprintf (bi.coding_history, sizeof (bi.coding_history), "A=PCM,F=%d,W=16,M=mono,T=other\r\n", 1000 + (int) (sp->seed & 0xfff)) ;
			rc = sf_command (in->s, SFC_SET_BROADCAST_INFO, &bi, sizeof (bi)) ; memset (&bi, 0, sizeof (bi)) ;
			if (sf_command (in->s, SFC_GET_BROADCAST_INFO, &bi, sizeof (bi)) == SF_TRUE) rec (in, "set+get-broadcast-info", rc, &bi, offsetof (SF_BROADCAST_INFO, coding_history) + (bi.coding_history_size < sizeof (bi.coding_history) ? bi.coding_history_size : sizeof (bi.coding_history))) ;
			else rec (in, "set-broadcast-info", rc, NULL, 0) ;
			} break ;
		case 1 :
		{	static SF_CART_INFO ci ; memset (&ci, 0, sizeof (ci)) ; snprintf (ci.version, sizeof (ci.version), "0101") ; snprintf (ci.title, sizeof (ci.title), "cart %d", (int) (sp->seed & 0xff)) ; ci.level_reference = (int) (sp->seed & 0x7fff) ;
			ci.tag_text_size = (uint32_t) snprintf (ci.tag_text, sizeof (ci.tag_text), "tag text %d", (int) (sp->seed & 0xfff)) + 1 ;
			rc = sf_command (in->s, SFC_SET_CART_INFO, &ci, sizeof (ci)) ; memset (&ci, 0, sizeof (ci)) ;
			if (sf_command (in->s, SFC_GET_CART_INFO, &ci, sizeof (ci)) == SF_TRUE) rec (in, "set+get-cart-info", rc, &ci, offsetof (SF_CART_INFO, tag_text) + (ci.tag_text_size < sizeof (ci.tag_text) ? ci.tag_text_size : sizeof (ci.tag_text))) ;
			else rec (in, "set-cart-info", rc, NULL, 0) ;
			} break ;
		case 2 :
		{	static SF_INSTRUMENT ins ; memset (&ins, 0, sizeof (ins)) ; ins.gain = 1 ; ins.basenote = (char) (40 + (sp->seed & 31)) ; ins.velocity_hi = 127 ; ins.key_hi = 127 ; ins.loop_count = 1 + (int) ((sp->seed >> 5) & 1) ;
			ins.loops [0].mode = SF_LOOP_FORWARD ; ins.loops [0].start = (uint32_t) (sp->seed & 63) ; ins.loops [0].end = 100 + (uint32_t) (sp->seed & 127) ; ins.loops [1].mode = SF_LOOP_BACKWARD ; ins.loops [1].start = 7 ; ins.loops [1].end = 70 ;
			rc = sf_command (in->s, SFC_SET_INSTRUMENT, &ins, sizeof (ins)) ; memset (&ins, 0, sizeof (ins)) ;
			if (sf_command (in->s, SFC_GET_INSTRUMENT, &ins, sizeof (ins)) == SF_TRUE) rec (in, "set+get-instrument", rc, &ins.gain, 8) ; else rec (in, "set-instrument", rc, NULL, 0) ;
			} break ;
		default :
		{	static SF_CUES cu ; uint32_t i ; memset (&cu, 0, sizeof (cu)) ; cu.cue_count = 1 + (uint32_t) (sp->seed & 3) ;
			for (i = 0 ; i < cu.cue_count ; i++) { cu.cue_points [i].indx = (int32_t) i + 1 ; cu.cue_points [i].position = (uint32_t) (10 * i + (sp->seed & 7)) ; cu.cue_points [i].fcc_chunk = 0x61746164 ; cu.cue_points [i].sample_offset = (uint32_t) (10 * i + (sp->seed & 7)) ; snprintf (cu.cue_points [i].name, sizeof (cu.cue_points [i].name), "cue %u", (unsigned) i) ; }
			rc = sf_command (in->s, SFC_SET_CUE, &cu, sizeof (cu)) ; { uint32_t cc = 0 ; sf_command (in->s, SFC_GET_CUE_COUNT, &cc, sizeof (cc)) ; rec (in, "set-cue+count", rc, &cc, sizeof (cc)) ; }
			} break ;
		}
}
/* one call of the script; returns 0 when the script is finished */
static int inst_step (INST *in)
{	static double buf [8192] ; SF_INFO si ; int ch = in->sp.ch, st = in->step++ ; const SPEC *sp = &in->sp ;
	if (in->done) return 0 ;
	memset (&si, 0, sizeof (si)) ;
	if (st == 0)		/* ---- open */
	{	switch (sp->kind)
		{	case K_WRITE : case K_ERRORS : si.format = sp->format ; si.channels = ch ; si.samplerate = sp->rate ; in->s = sf_open_virtual (&MVIO, SFM_WRITE, &si, &in->m) ; break ;
			case K_PATHWRITE : case K_SD2 : si.format = sp->format ; si.channels = ch ; si.samplerate = sp->rate ; in->s = sf_open (in->path, SFM_WRITE, &si) ; break ;
			default : if (vh_make_file (&in->m, sp->format, ch, 8000, 1200, 1)) { in->done = 1 ; rec (in, "make-file-failed", -1, NULL, 0) ; return 0 ; }
				/* a quarter of the read scripts work on a "foreign" file: a few header bytes behind the format tag are altered (parameter tables of block codecs, rates, sizes); whatever a handle
				** learns from such a file must stay with that handle */
				if (sp->kind == K_READ && (sp->seed & 0xC0000) == 0x40000 && in->m.len > 80) {	/* read scripts only: a damaged file opened SFM_RDWR runs into the known header-rewrite defect of C16 */ int z ; uint64_t x = sp->seed ; for (z = 0 ; z < 3 ; z++) { long pos ; x = vh_mix (x + z) ; pos = 38 + (long) (x % 34) ; in->m.d [pos] ^= (unsigned char) (1u << ((x >> 8) % 3)) ; } }
				/* another quarter read a file whose tail was cut off at a random byte: the last block of a block codec is then partial, and whatever fills the rest of it must be this handle's own */
				if (sp->kind == K_READ && (sp->seed & 0xC0000) == 0x80000 && in->m.len > 400) in->m.len -= 1 + (long) ((sp->seed >> 32) % 160) ;
				if ((sp->format & SF_FORMAT_TYPEMASK) == SF_FORMAT_RAW) { si.format = sp->format ; si.channels = ch ; si.samplerate = 8000 ; } in->m.pos = 0 ;
				in->s = sf_open_virtual (&MVIO, sp->kind == K_READ ? SFM_READ : SFM_RDWR, &si, &in->m) ; break ;
			}
		rec (in, "open", in->s ? (long) si.frames * 7 + si.channels : -1, NULL, 0) ;
		if (!in->s) { in->done = 1 ; return 0 ; }
		if (si.channels != ch || si.frames > 100000) { sf_close (in->s) ; in->s = NULL ; in->done = 1 ; mv_free (&in->m) ; rec (in, "foreign-file-other-geometry", si.channels, NULL, 0) ; return 0 ; }	/* the script's buffers are sized for the written geometry */
		return 1 ;
		}
	if (st >= sp->nsteps - 1)		/* ---- close */
	{	int rc = sf_close (in->s) ; in->s = NULL ; in->done = 1 ;
		if (sp->kind == K_PATHWRITE || sp->kind == K_SD2)
		{	FILE *f = fopen (in->path, "rb") ; uint64_t h = 0 ; long n = 0 ; if (f) { unsigned char b [4096] ; size_t g ; while ((g = fread (b, 1, sizeof (b), f)) > 0) { h = vh_fnv (h, b, g) ; n += (long) g ; } fclose (f) ; }
			if (sp->kind == K_SD2) { SNDFILE *r ; memset (&si, 0, sizeof (si)) ; r = sf_open (in->path, SFM_READ, &si) ; if (r) { sf_count_t g = sf_readf_short (r, (short *) buf, 200 / ch) ; h = vh_fnv (h, buf, (size_t) g * ch * 2) ; h = vh_fnv (h, &si.frames, 8) ; sf_close (r) ; } else h ^= 0xdead ; }
			rec (in, "close+final-bytes", rc * 1000003L + n, &h, 8) ; unlink (in->path) ; { char r2 [400], *sl ; snprintf (r2, sizeof (r2), "%s", in->path) ; sl = strrchr (r2, '/') ; if (sl) { snprintf (sl + 1, sizeof (r2) - (sl + 1 - r2), "._out.sd2") ; unlink (r2) ; *sl = 0 ; rmdir (r2) ; } }
			}
		else { uint64_t h = vh_fnv (0, in->m.d, (size_t) in->m.len) ; rec (in, "close+final-bytes", rc * 1000003L + (long) in->m.len, &h, 8) ; mv_free (&in->m) ; }
		return 0 ;
		}
	switch (sp->kind)
	{	case K_WRITE : case K_PATHWRITE : case K_SD2 :
			if (st == 1) { int rc = sf_set_string (in->s, SF_STR_TITLE, "isolation") ; rec (in, "set_string", rc, NULL, 0) ; }
			else if (st == 2 && (sp->seed & 0x30000) == 0x10000) { int rc = sf_command (in->s, SFC_TEST_IEEE_FLOAT_REPLACE, NULL, SF_TRUE) ; rec (in, "ieee-replace-on", rc, NULL, 0) ; }	/* a per-handle test switch: must stay per handle */
			else if (st == 3) meta_step (in) ;
			else if (st % 5 == 4) { sf_command (in->s, SFC_UPDATE_HEADER_NOW, NULL, 0) ; rec (in, "update-header", 0, NULL, 0) ; }
			else { int fr = 1 + (int) (inst_rnd (in) % (st % 3 == 0 ? 3000 / ch : 90)), t = (in->t + st) % T_N ; sf_count_t w ; gen_frames (in, buf, t, fr) ; w = vh_write_t (in->s, t, st & 1, buf, (sf_count_t) fr * ch, ch) ; in->wrote += fr ; rec (in, "write", (long) w, NULL, 0) ; }
			break ;
		case K_READ :
			if (st == 1 && (sp->seed & 0x30000) == 0x10000) { int rc = sf_command (in->s, SFC_TEST_IEEE_FLOAT_REPLACE, NULL, SF_TRUE) ; rec (in, "ieee-replace-on", rc, NULL, 0) ; }
			else if (st % 4 == 3) { sf_count_t tg = (sf_count_t) (inst_rnd (in) % 1200), q = sf_seek (in->s, tg, SEEK_SET) ; rec (in, "seek", (long) q, NULL, 0) ; }
			else if (st % 7 == 5) { double mx = -1 ; int rc = sf_command (in->s, SFC_CALC_SIGNAL_MAX, &mx, sizeof (mx)) ; rec (in, "calc-max", rc, &mx, 8) ; }
			else if (st % 7 == 6) { const char *g = sf_get_string (in->s, SF_STR_TITLE) ; rec (in, "get_string", g ? (long) strlen (g) : -1, g, g ? strlen (g) : 0) ; }
			else { int fr = 1 + (int) (inst_rnd (in) % 300), t = (in->t + st) % T_N ; sf_count_t r ; memset (buf, 0, (size_t) fr * ch * 8) ; r = vh_read_t (in->s, t, st & 1, buf, (sf_count_t) fr * ch, ch) ; rec (in, "read", (long) r, buf, (size_t) (r > 0 ? (r > (sf_count_t) fr * ch ? (sf_count_t) fr * ch : r) : 0) * vh_tsize [t]) ; }	/* never digest beyond the requested region (VOX returns count+1) */
			break ;
		case K_RDWR :
			if (st % 3 == 0) { int fr = 1 + (int) (inst_rnd (in) % 60) ; sf_count_t r ; memset (buf, 0, (size_t) fr * ch * 2) ; r = sf_readf_short (in->s, (short *) buf, fr) ; rec (in, "read", (long) r, buf, (size_t) (r > 0 ? r : 0) * ch * 2) ; }
			else if (st % 3 == 1) { sf_count_t q = sf_seek (in->s, (sf_count_t) (inst_rnd (in) % 1000), SEEK_SET | ((st & 1) ? SFM_WRITE : SFM_READ)) ; rec (in, "seek", (long) q, NULL, 0) ; }
			else { int fr = 1 + (int) (inst_rnd (in) % 40) ; sf_count_t w ; gen_frames (in, buf, T_SHORT, fr) ; w = sf_writef_short (in->s, (short *) buf, fr) ; rec (in, "write", (long) w, NULL, 0) ; }
			break ;
		default : /* K_ERRORS: a handle that is made to fail again and again; its own error state is part of ITS transcript only */
			switch (st % 5)
			{	case 0 : { sf_count_t r = sf_read_short (in->s, (short *) buf, ch * 4) ; rec (in, "read-on-write-handle", (long) r, NULL, 0) ; } break ;
				case 1 : { sf_count_t q = sf_seek (in->s, -7, SEEK_SET) ; rec (in, "bad-seek", (long) q, NULL, 0) ; } break ;
				case 2 : { int rc = sf_command (in->s, SFC_GET_CURRENT_SF_INFO, buf, 3) ; rec (in, "bad-command-size", rc, NULL, 0) ; } break ;
				case 3 : { SF_INFO bad ; SNDFILE *x ; memset (&bad, 0, sizeof (bad)) ; x = sf_open ("/nonexistent/c19/file.wav", SFM_READ, &bad) ; rec (in, "failed-open-elsewhere", x ? 1 : 0, NULL, 0) ; if (x) sf_close (x) ; } break ;
				default : { sf_count_t w ; gen_frames (in, buf, T_SHORT, 5) ; w = sf_writef_short (in->s, (short *) buf, 5) ; in->wrote += 5 ; rec (in, "write", (long) w, NULL, 0) ; } break ;
				}
			break ;
		}
	return 1 ;
}

/* ---- zygote: a child forked before this process ever called libsndfile; it forks a fresh grandchild per solo request */
static int zy_to = -1, zy_from = -1 ;
static void zygote_loop (int rfd, int wfd)
{	SPEC sp ;
	while (read (rfd, &sp, sizeof (sp)) == (ssize_t) sizeof (sp))
	{	int pfd [2] ; pid_t p ; static INST in ; uint64_t out [MAXSTEPS + 5] ; int st ;
		if (pipe (pfd)) _exit (4) ;
		p = fork () ;
		if (p == 0) { close (pfd [0]) ; inst_init (&in, &sp, 900) ; while (inst_step (&in)) ; memset (out, 0, sizeof (out)) ; out [0] = (uint64_t) in.ntr ; memcpy (out + 1, in.tr, sizeof (uint64_t) * (MAXSTEPS + 4)) ; if (write (pfd [1], out, sizeof (out)) != (ssize_t) sizeof (out)) _exit (5) ; _exit (0) ; }
		close (pfd [1]) ; memset (out, 0xff, sizeof (out)) ; if (read (pfd [0], out, sizeof (out)) != (ssize_t) sizeof (out)) out [0] = (uint64_t) -1 ; close (pfd [0]) ; waitpid (p, &st, 0) ;
		if (write (wfd, out, sizeof (out)) != (ssize_t) sizeof (out)) _exit (6) ;
		}
	_exit (0) ;
}
static int solo (const SPEC *sp, uint64_t *tr, int *ntr)
{	uint64_t out [MAXSTEPS + 5] ;
	if (write (zy_to, sp, sizeof (*sp)) != (ssize_t) sizeof (*sp)) return -1 ;
	if (read (zy_from, out, sizeof (out)) != (ssize_t) sizeof (out) || out [0] == (uint64_t) -1) return -1 ;
	*ntr = (int) out [0] ; memcpy (tr, out + 1, sizeof (uint64_t) * (MAXSTEPS + 4)) ; return 0 ;
}

static void compare (INST *in, const char *mode, int group)
{	uint64_t tr [MAXSTEPS + 4] ; int n = 0, i ; const char *fn = vh_fname (in->sp.format) ;
	if (solo (&in->sp, tr, &n) != 0) { vh_viol (vh_key ("C19|solo-run-failed|%s|%s", kname [in->sp.kind], fn), "the fresh-process run of this script did not report back") ; return ; }
	vh_stat ("scripts_compared", 1) ; vh_stat ("calls_compared", in->ntr) ;
	if (n != in->ntr) { vh_viol (vh_key ("C19|transcript-length|%s|%s", kname [in->sp.kind], fn), "%s with %d other scripts: %d calls recorded, %d when run alone", mode, group - 1, in->ntr, n) ; return ; }
	for (i = 0 ; i < n ; i++) if (tr [i] != in->tr [i])
	{	vh_viol (vh_key ("C19|transcript-differs|%s|%s|%s", kname [in->sp.kind], fn, in->what [i]), "%s with %d other scripts: call %d (%s) of a %s script on %s ch=%d returned something else (value, data or sf_error) than in a fresh process", mode, group - 1, i, in->what [i], kname [in->sp.kind], fn, in->sp.ch) ; return ; }
}

static SPEC mk_spec (int f, int kind, int nsteps)
{	SPEC sp ; memset (&sp, 0, sizeof (sp)) ; sp.kind = kind ; sp.format = vh_fmts [f].format ; sp.ch = vh_accepts (sp.format, 2, 8000) && (vh_rnd () & 1) ? 2 : (vh_accepts (sp.format, 1, 8000) ? 1 : 2) ; sp.nsteps = nsteps ; sp.seed = vh_rnd () ;
	if (kind == K_SD2) { sp.format = SF_FORMAT_SD2 | SF_FORMAT_PCM_16 ; sp.ch = 2 ; }
	{	static const int rates [] = { 8000, 8000, 44100, 1, 11025, 0x40000000, 48000, 0x7fffffff, 8000, 2, 96000, 0x40000001 } ; sp.rate = rates [(sp.seed >> 20) % 12] ; if (!vh_accepts (sp.format, sp.ch, sp.rate)) sp.rate = 8000 ; }
	return sp ; }
/* theme 1: a format with the same encoding as vh_fmts [tf]; theme 2: the same container; else any */
static int themed_format (int theme, int tf)
{	int f = vh_rint (vh_nfmts), n ;
	if (theme == 0 || vh_rint (4) == 0) return f ;		/* a quarter of the members of a themed group are strangers */
	for (n = 0 ; n < vh_nfmts ; n++, f = (f + 1) % vh_nfmts)
		if (theme == 1 ? ((vh_fmts [f].format & SF_FORMAT_SUBMASK) == (vh_fmts [tf].format & SF_FORMAT_SUBMASK)) : (vh_fmts [f].major == vh_fmts [tf].major)) return f ;
	return tf ; }
static int sd2_index (void) { int i ; for (i = 0 ; i < vh_nfmts ; i++) if (vh_fmts [i].major == SF_FORMAT_SD2) return i ; return 0 ; }

int main (int argc, char **argv)
{	int g, i, j ; const char *sd ;
	vh_init (argc, argv, "c19_isolation", "C19") ;
	sd = getenv ("VERIF_SCRATCH_DIR") ; snprintf (scratch, sizeof (scratch), "%s/c19_%d", sd ? sd : ".", (int) getpid ()) ; mkdir (scratch, 0700) ;
	{	int a [2], b [2] ; pid_t p ; if (pipe (a) || pipe (b)) return 2 ; fflush (vh_out) ; p = fork () ; if (p == 0) { close (a [1]) ; close (b [0]) ; zygote_loop (a [0], b [1]) ; } close (a [0]) ; close (b [1]) ; zy_to = a [1] ; zy_from = b [0] ; }
	vh_enum_formats () ;
	/* groups of 2..8 scripts */
	for (g = 0 ; g < (vh_thorough ? 30000 : 1500) ; g++)
	{	static INST in [8] ; int k, live, mode, theme, theme_f, theme_rate ; uint64_t order_hash = 0 ;
		if (!vh_case ("group %d", g)) continue ;
		k = 2 + vh_rint (7) ; mode = vh_rint (2) ;
		/* a third of the groups share a codec, a quarter a container, and half of those one sample rate: state that should be per handle but is per codec or per
		** container (tables, block buffers, cached header lines) only shows when two handles of the same kind are open together */
		theme = vh_rint (12) ; theme = theme < 4 ? 1 : theme < 7 ? 2 : 0 ; theme_f = vh_rint (vh_nfmts) ; theme_rate = (theme && vh_rint (2)) ? 1 : 0 ;
		vh_statf (1, "group-theme:%s", theme == 1 ? "same-codec" : theme == 2 ? "same-container" : "mixed") ;
		for (i = 0 ; i < k ; i++)
		{	int kind = vh_rint (10), f = themed_format (theme, theme_f) ; SPEC sp ;
			kind = kind < 3 ? K_WRITE : kind < 6 ? K_READ : kind < 7 ? K_RDWR : kind < 8 ? K_ERRORS : kind < 9 ? K_PATHWRITE : K_SD2 ;
			if (vh_fmts [f].major == SF_FORMAT_SD2) f = (f + 1) % vh_nfmts ;
			if (kind == K_RDWR && !vh_sample_granular (vh_fmts [f].format)) kind = K_READ ;
			if (kind == K_SD2) f = sd2_index () ;
			sp = mk_spec (f, kind, 8 + vh_rint (MAXSTEPS - 8)) ;
			if (theme_rate && kind != K_SD2) { if (i == 0) theme_rate = sp.rate ; else if (vh_accepts (sp.format, sp.ch, theme_rate)) sp.rate = theme_rate ; }
			inst_init (&in [i], &sp, i) ; vh_statf (1, "kind:%s", kname [kind]) ; vh_statf (1, "fmt:%s", vh_fname (sp.format)) ;
			}
		for (live = k ; live > 0 ; )
		{	int pick = mode ? vh_rint (k) : (int) (order_hash % k) ; if (!mode) order_hash++ ;
			if (in [pick].done) { if (mode) continue ; else { int q ; for (q = 0 ; q < k && in [(pick + q) % k].done ; q++) ; pick = (pick + q) % k ; } }
			if (!inst_step (&in [pick])) live-- ;
			if (mode) order_hash = order_hash * 31 + pick ;
			}
		vh_distinct (order_hash ^ ((uint64_t) k << 56) ^ vh_rs) ;
		if (g % 50 == 3) vh_sample ("group of %d scripts (%s %s, %s %s, ...) merged %s; every transcript compared with its fresh-process run", k, kname [in [0].sp.kind], vh_fname (in [0].sp.format), kname [in [1].sp.kind], vh_fname (in [1].sp.format), mode ? "by a seeded random schedule" : "round-robin") ;
		for (i = 0 ; i < k ; i++) compare (&in [i], mode ? "random merge" : "round-robin", k) ;
		}
	/* all merges of two 6-step scripts: C(12,6) = 924 interleavings per pair */
	for (g = 0 ; g < (vh_thorough ? 320 : 16) ; g++)
	{	long merges = 0 ; unsigned mask ; SPEC a, b ;
		if (!vh_case ("all merges of pair %d", g)) continue ;
		{	int fa = vh_rint (vh_nfmts), fb = themed_format (g % 3, fa), ka = vh_rint (4), kb = vh_rint (4) ; if (vh_fmts [fa].major == SF_FORMAT_SD2) fa = 0 ; if (vh_fmts [fb].major == SF_FORMAT_SD2) fb = 0 ;
			a = mk_spec (fa, ka == 0 ? K_WRITE : ka == 1 ? K_READ : ka == 2 ? K_ERRORS : K_SD2, 6) ; b = mk_spec (fb, kb == 0 ? K_WRITE : kb == 1 ? K_READ : kb == 2 ? K_PATHWRITE : K_ERRORS, 6) ; if (a.kind == K_SD2) a = mk_spec (sd2_index (), K_SD2, 6) ; }
		for (mask = 0 ; mask < 4096 ; mask++)
		{	static INST x, y ; int bits = __builtin_popcount (mask), pos ; if (bits != 6) continue ;
			inst_init (&x, &a, 0) ; inst_init (&y, &b, 1) ;
			for (pos = 0 ; pos < 12 ; pos++) { if (mask & (1u << pos)) inst_step (&x) ; else inst_step (&y) ; }
			while (inst_step (&x)) ; while (inst_step (&y)) ;
			compare (&x, "exhaustive pair merge", 2) ; compare (&y, "exhaustive pair merge", 2) ; merges++ ;
			vh_distinct (((uint64_t) mask << 20) ^ a.seed ^ (b.seed << 1)) ;
			if (vh_viol_count > 20) break ;
			}
		vh_stat ("pair_merges_executed", merges) ;
		}
	close (zy_to) ; rmdir (scratch) ;
	return vh_finish () ;
}
