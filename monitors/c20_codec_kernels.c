/* C20 — built-in codec kernels conform to their published definitions for every input.
** (1) G.711: all 256 codes decoded through the four read types; all 65536 short inputs (and their int / float / double
**     images) encoded; compared with a reference written from ITU-T G.711 (g711ref.h, arithmetic form).      EXHAUSTIVE.
** (2) portable IEEE-754 serialisers (SFC_TEST_IEEE_FLOAT_REPLACE) on RAW float/double files in both byte orders: file bytes
**     must equal the native representation and read back identically.  Floats: all 2^32 patterns (thorough) / 2^24
**     stratified (quick), judged on finite normal values; doubles: sign x every exponent x boundary and random mantissas.
** (3) byte-order helpers: a little-endian file and its big-endian twin are exact byte swaps and decode identically.
** (4) IMA ADPCM (WAV and AIFF block layouts) and Microsoft ADPCM decoders on random and adversarial block bytes, against
**     reference decoders written from the IMA/DVI recommended practice and the Microsoft ADPCM description.
*/
#include "vh.h"
#include "g711ref.h"

/* ------------------------------------------------------------------ (1) G.711 */
static void g711_all (int alaw)
{	int sub = alaw ? SF_FORMAT_ALAW : SF_FORMAT_ULAW, t, i ; MEMF m ; unsigned char codes [256] ; SF_INFO si ; SNDFILE *s ; const char *nm = alaw ? "alaw" : "ulaw" ; int sh = alaw ? 3 : 2 ;
	for (i = 0 ; i < 256 ; i++) codes [i] = (unsigned char) i ;
	/* decode: every code through every read type */
	for (t = 0 ; t < T_N ; t++)
	{	double out [256] ; mv_from (&m, codes, 256) ; memset (&si, 0, sizeof (si)) ; si.format = SF_FORMAT_RAW | sub ; si.channels = 1 ; si.samplerate = 8000 ;
		s = sf_open_virtual (&MVIO, SFM_READ, &si, &m) ; if (!s) { vh_viol (vh_key ("C20|g711-open|%s", nm), "cannot open RAW %s", nm) ; mv_free (&m) ; return ; }
		if (vh_read_t (s, t, 0, out, 256, 1) != 256) vh_viol (vh_key ("C20|g711-decode-count|%s", nm), "short read") ;
		else for (i = 0 ; i < 256 ; i++)
		{	int ref = alaw ? ref_alaw_dec (i) : ref_ulaw_dec (i), ok ; double got ;
			switch (t) { case T_SHORT : got = ((short *) out) [i] ; ok = got == ref ; break ; case T_INT : got = ((int *) out) [i] ; ok = got == (double) ref * 65536.0 ; break ;
				case T_FLOAT : got = ((float *) out) [i] ; ok = got == (float) (ref / 32768.0) ; break ; default : got = out [i] ; ok = got == ref / 32768.0 ; }
			vh_stat ("g711_decodes_checked", 1) ;
			if (!ok) { vh_viol (vh_key ("C20|g711-decode|%s|%s", nm, vh_tname [t]), "code 0x%02x read as %s gives %.10g, G.711 value %d", i, vh_tname [t], got, ref) ; break ; }
			}
		sf_close (s) ; mv_free (&m) ;
		}
	/* encode: all 65536 shorts through every write type */
	for (t = 0 ; t < T_N ; t++)
	{	void *in = malloc (65536 * 8) ; int bad = 0 ;
		for (i = 0 ; i < 65536 ; i++) { short v = (short) (i - 32768) ; switch (t) { case T_SHORT : ((short *) in) [i] = v ; break ; case T_INT : ((int *) in) [i] = v * 65536 ; break ; case T_FLOAT : ((float *) in) [i] = v ; break ; default : ((double *) in) [i] = v ; } }
		memset (&m, 0, sizeof (m)) ; s = vh_open_w (&m, SF_FORMAT_RAW | sub, 1, 8000, NULL) ;
		sf_command (s, SFC_SET_NORM_FLOAT, NULL, SF_FALSE) ; sf_command (s, SFC_SET_NORM_DOUBLE, NULL, SF_FALSE) ;	/* float entries carry the 16-bit value unscaled */
		if (vh_write_t (s, t, 0, in, 65536, 1) != 65536) vh_viol (vh_key ("C20|g711-encode-count|%s", nm), "short write") ;
		sf_close (s) ;
		for (i = 0 ; i < 65536 && m.len >= 65536 && bad < 3 ; i++)
		{	int v = i - 32768, neg = v < 0, mag = abs (v) >> sh ; unsigned ref = alaw ? ref_alaw_enc13 (neg, mag) : ref_ulaw_enc14 (neg, mag), got = m.d [i] ; int ok = got == ref ;
			/* float/double entries round to the codec's input grid instead of truncating: exact on the grid, within one grid step elsewhere */
			if (!ok && t >= T_FLOAT && (abs (v) & ((alaw ? 16 : 4) - 1))) { unsigned up = alaw ? ref_alaw_enc13 (neg, mag + 2) : ref_ulaw_enc14 (neg, mag + 1) ; ok = got == up ; }
			vh_stat ("g711_encodes_checked", 1) ;
			if (!ok) { bad++ ; vh_viol (vh_key ("C20|g711-encode|%s|%s", nm, vh_tname [t]), "input %d written as %s is stored as 0x%02x, G.711 gives 0x%02x", v, vh_tname [t], got, ref) ; }
			/* decode after encode is the quantiser, encode after decode the identity (up to the two mu-law zero codes) */
			if (ok && t == T_SHORT) { unsigned again = alaw ? ref_alaw_enc13 ((alaw ? ref_alaw_dec (got) : ref_ulaw_dec (got)) < 0, abs (alaw ? ref_alaw_dec (got) : ref_ulaw_dec (got)) >> sh) : ref_ulaw_enc14 (ref_ulaw_dec (got) < 0, abs (ref_ulaw_dec (got)) >> sh) ; if (again != got && !(ref_ulaw_dec (got) == 0 && !alaw)) vh_viol (vh_key ("C20|g711-idempotence|%s", nm), "code 0x%02x decodes to a value that re-encodes as 0x%02x", got, again) ; }
			}
		free (in) ; mv_free (&m) ;
		}
	/* encode(decode(code)) through the library itself */
	{	short v [256] ; mv_from (&m, codes, 256) ; memset (&si, 0, sizeof (si)) ; si.format = SF_FORMAT_RAW | sub ; si.channels = 1 ; si.samplerate = 8000 ; s = sf_open_virtual (&MVIO, SFM_READ, &si, &m) ; sf_read_short (s, v, 256) ; sf_close (s) ; mv_free (&m) ;
		memset (&m, 0, sizeof (m)) ; s = vh_open_w (&m, SF_FORMAT_RAW | sub, 1, 8000, NULL) ; sf_write_short (s, v, 256) ; sf_close (s) ;
		for (i = 0 ; i < 256 && m.len >= 256 ; i++) if (m.d [i] != i && !(v [i] == 0)) { vh_viol (vh_key ("C20|g711-roundtrip|%s", nm), "code 0x%02x -> %d -> 0x%02x", i, v [i], m.d [i]) ; break ; }
		mv_free (&m) ;
		}
}

/* ------------------------------------------------------------------ (2) IEEE serialisers */
static int float_class (uint32_t b) { unsigned e = (b >> 23) & 0xff ; return e == 0 ? ((b & 0x7fffff) ? 1 : 0) : e == 0xff ? 2 : 3 ; }	/* 0 zero, 1 denormal, 2 inf/nan, 3 normal */
static void ieee_float_block (uint32_t base, uint32_t stride, int big)
{	static float in [65536], out [65536] ; int i ; MEMF m ; SNDFILE *s ; SF_INFO si ; int fmt = SF_FORMAT_RAW | SF_FORMAT_FLOAT | (big ? SF_ENDIAN_BIG : SF_ENDIAN_LITTLE) ; long badw = 0, badr = 0 ;
	for (i = 0 ; i < 65536 ; i++) { uint32_t b = base + (uint32_t) i * stride ; memcpy (&in [i], &b, 4) ; }
	memset (&m, 0, sizeof (m)) ; s = vh_open_w (&m, fmt, 1, 8000, NULL) ; if (!s) return ;
	sf_command (s, SFC_TEST_IEEE_FLOAT_REPLACE, NULL, SF_TRUE) ;
	if (sf_write_float (s, in, 65536) != 65536) { vh_viol ("C20|ieee-float-write-count", "short write") ; sf_close (s) ; mv_free (&m) ; return ; }
	sf_close (s) ;
	for (i = 0 ; i < 65536 && m.len >= 65536 * 4 ; i++)
	{	uint32_t b, g ; const unsigned char *p = m.d + 4 * i ; memcpy (&b, &in [i], 4) ; g = big ? ((uint32_t) p [0] << 24 | p [1] << 16 | p [2] << 8 | p [3]) : ((uint32_t) p [3] << 24 | p [2] << 16 | p [1] << 8 | p [0]) ;
		if (float_class (b) != 3) continue ;
		vh_stat ("ieee_float_writes_checked", 1) ;
		if (g != b && badw++ < 1) vh_viol (vh_key ("C20|ieee-float-write|%s", fabsf (in [i]) < 1e-30f ? "magnitude-below-1e-30" : "other"), "float 0x%08x (%.9g) serialised as 0x%08x (%s endian)", b, in [i], g, big ? "big" : "little") ;
		}
	/* read: patch the file with the native patterns, read through the portable reader */
	for (i = 0 ; i < 65536 && m.len >= 65536 * 4 ; i++) { uint32_t b ; unsigned char *p = m.d + 4 * i ; memcpy (&b, &in [i], 4) ; if (big) { p [0] = b >> 24 ; p [1] = b >> 16 ; p [2] = b >> 8 ; p [3] = b ; } else { p [3] = b >> 24 ; p [2] = b >> 16 ; p [1] = b >> 8 ; p [0] = b ; } }
	memset (&si, 0, sizeof (si)) ; si.format = fmt ; si.channels = 1 ; si.samplerate = 8000 ; m.pos = 0 ; s = sf_open_virtual (&MVIO, SFM_READ, &si, &m) ;
	if (s) { sf_command (s, SFC_TEST_IEEE_FLOAT_REPLACE, NULL, SF_TRUE) ; if (sf_read_float (s, out, 65536) == 65536) for (i = 0 ; i < 65536 ; i++)
		{	uint32_t b, g ; memcpy (&b, &in [i], 4) ; memcpy (&g, &out [i], 4) ; if (float_class (b) != 3) continue ; vh_stat ("ieee_float_reads_checked", 1) ;
			if (g != b && badr++ < 1) vh_viol ("C20|ieee-float-read", "stored 0x%08x (%.9g) read back as 0x%08x (%s endian)", b, in [i], g, big ? "big" : "little") ; }
		sf_close (s) ; }
	mv_free (&m) ;
}
static void ieee_double_block (int sign, int e0, int big)
{	static double in [4096], out [4096] ; int i, n = 0, e ; MEMF m ; SNDFILE *s ; SF_INFO si ; int fmt = SF_FORMAT_RAW | SF_FORMAT_DOUBLE | (big ? SF_ENDIAN_BIG : SF_ENDIAN_LITTLE) ; long badw = 0, badr = 0 ;
	for (e = e0 ; e < e0 + 128 && e <= 2046 ; e++)
	{	static const uint64_t mant [] = { 0, 1, 2, 0xFFFFFFFFFFFFFULL, 0xFFFFFFFFFFFFEULL, 0x8000000000000ULL, 0x7FFFFFFFFFFFFULL, 0x8000000000001ULL, 0x1000000ULL, 0xFFFFFFULL, 0x100000000ULL, 0xFFFFFFFFULL, 0x5555555555555ULL, 0xAAAAAAAAAAAAAULL } ; int k ;
		if (e < 1) continue ;
		for (k = 0 ; k < 32 && n < 4096 ; k++) { uint64_t mm = k < 14 ? mant [k] : (vh_rnd () & 0xFFFFFFFFFFFFFULL), b = ((uint64_t) sign << 63) | ((uint64_t) e << 52) | mm ; memcpy (&in [n++], &b, 8) ; }
		}
	if (n == 0) return ;
	memset (&m, 0, sizeof (m)) ; s = vh_open_w (&m, fmt, 1, 8000, NULL) ; if (!s) return ; sf_command (s, SFC_TEST_IEEE_FLOAT_REPLACE, NULL, SF_TRUE) ;
	if (sf_write_double (s, in, n) != n) { sf_close (s) ; mv_free (&m) ; vh_viol ("C20|ieee-double-write-count", "short write") ; return ; } sf_close (s) ;
	for (i = 0 ; i < n && m.len >= n * 8 ; i++)
	{	uint64_t b, g = 0 ; const unsigned char *p = m.d + 8 * i ; int k ; memcpy (&b, &in [i], 8) ; for (k = 0 ; k < 8 ; k++) g |= (uint64_t) p [big ? k : 7 - k] << (8 * (7 - k)) ;
		vh_stat ("ieee_double_writes_checked", 1) ;
		if (g != b && badw++ < 1) vh_viol (vh_key ("C20|ieee-double-write|%s", fabs (in [i]) < 1e-30 ? "magnitude-below-1e-30" : "other"), "double 0x%016llx (%.17g) serialised as 0x%016llx (%s endian)", (unsigned long long) b, in [i], (unsigned long long) g, big ? "big" : "little") ;
		}
	for (i = 0 ; i < n && m.len >= n * 8 ; i++) { uint64_t b ; unsigned char *p = m.d + 8 * i ; int k ; memcpy (&b, &in [i], 8) ; for (k = 0 ; k < 8 ; k++) p [big ? k : 7 - k] = (unsigned char) (b >> (8 * (7 - k))) ; }
	memset (&si, 0, sizeof (si)) ; si.format = fmt ; si.channels = 1 ; si.samplerate = 8000 ; m.pos = 0 ; s = sf_open_virtual (&MVIO, SFM_READ, &si, &m) ;
	if (s) { sf_command (s, SFC_TEST_IEEE_FLOAT_REPLACE, NULL, SF_TRUE) ; if (sf_read_double (s, out, n) == n) for (i = 0 ; i < n ; i++) { vh_stat ("ieee_double_reads_checked", 1) ; if (memcmp (&in [i], &out [i], 8) && badr++ < 1) { uint64_t b, g ; memcpy (&b, &in [i], 8) ; memcpy (&g, &out [i], 8) ; vh_viol (vh_key ("C20|ieee-double-read|%s", (fabs (in [i]) < 1e-300 || fabs (in [i]) > 1e300) ? "extreme-exponent" : "other"), "stored 0x%016llx (%.17g) read back as 0x%016llx", (unsigned long long) b, in [i], (unsigned long long) g) ; } } sf_close (s) ; }
	mv_free (&m) ;
}

/* ------------------------------------------------------------------ (3) byte order twins */
static void endian_twins (int sub)
{	int n = 65536, i, w = vh_bits (SF_FORMAT_RAW | sub) / 8, t = (sub == SF_FORMAT_FLOAT) ? T_FLOAT : (sub == SF_FORMAT_DOUBLE) ? T_DOUBLE : T_INT ; MEMF a, b ; SNDFILE *s ; void *in = malloc (n * 8), *ra = malloc (n * 8), *rb = malloc (n * 8) ; SF_INFO si ;
	for (i = 0 ; i < n ; i++) { int32_t v = (int32_t) ((uint32_t) i * 65537u + (uint32_t) (vh_rnd () & 0xff)) ; if (t == T_INT) ((int *) in) [i] = v ; else if (t == T_FLOAT) ((float *) in) [i] = v / 2147483648.0f ; else ((double *) in) [i] = v / 2147483648.0 + 1e-12 * i ; }
	memset (&a, 0, sizeof (a)) ; memset (&b, 0, sizeof (b)) ;
	s = vh_open_w (&a, SF_FORMAT_RAW | sub | SF_ENDIAN_LITTLE, 1, 8000, NULL) ; vh_write_t (s, t, 0, in, n, 1) ; sf_close (s) ;
	s = vh_open_w (&b, SF_FORMAT_RAW | sub | SF_ENDIAN_BIG, 1, 8000, NULL) ; vh_write_t (s, t, 0, in, n, 1) ; sf_close (s) ;
	if (a.len != b.len || a.len != (sf_count_t) n * w) vh_viol (vh_key ("C20|endian-twin-length|%s", vh_short_sub (sub)), "lengths %ld / %ld", (long) a.len, (long) b.len) ;
	else { int k ; for (i = 0 ; i < n ; i++) { for (k = 0 ; k < w ; k++) if (a.d [i * w + k] != b.d [i * w + w - 1 - k]) break ; if (k < w) { vh_viol (vh_key ("C20|endian-twin-bytes|%s", vh_short_sub (sub)), "sample %d: the big-endian file is not the byte swap of the little-endian one", i) ; break ; } } vh_stat ("endian_twin_samples", n) ; }
	memset (&si, 0, sizeof (si)) ; si.format = SF_FORMAT_RAW | sub | SF_ENDIAN_LITTLE ; si.channels = 1 ; si.samplerate = 8000 ; a.pos = 0 ; s = sf_open_virtual (&MVIO, SFM_READ, &si, &a) ; vh_read_t (s, t, 0, ra, n, 1) ; sf_close (s) ;
	memset (&si, 0, sizeof (si)) ; si.format = SF_FORMAT_RAW | sub | SF_ENDIAN_BIG ; si.channels = 1 ; si.samplerate = 8000 ; b.pos = 0 ; s = sf_open_virtual (&MVIO, SFM_READ, &si, &b) ; vh_read_t (s, t, 0, rb, n, 1) ; sf_close (s) ;
	if (memcmp (ra, rb, (size_t) n * vh_tsize [t])) vh_viol (vh_key ("C20|endian-twin-decode|%s", vh_short_sub (sub)), "the two byte orders decode to different values") ;
	if ((sub == SF_FORMAT_PCM_32 || sub == SF_FORMAT_FLOAT || sub == SF_FORMAT_DOUBLE) && memcmp (ra, in, (size_t) n * vh_tsize [t])) vh_viol (vh_key ("C20|endian-twin-roundtrip|%s", vh_short_sub (sub)), "values do not survive") ;
	free (in) ; free (ra) ; free (rb) ; mv_free (&a) ; mv_free (&b) ;
}

/* ------------------------------------------------------------------ (4) ADPCM reference decoders */
static const int ima_step [89] = { 7, 8, 9, 10, 11, 12, 13, 14, 16, 17, 19, 21, 23, 25, 28, 31, 34, 37, 41, 45, 50, 55, 60, 66, 73, 80, 88, 97, 107, 118, 130, 143, 157, 173, 190, 209, 230, 253, 279, 307, 337, 371, 408, 449, 494, 544, 598, 658, 724, 796, 876, 963, 1060, 1166, 1282, 1411, 1552, 1707, 1878, 2066, 2272, 2499, 2749, 3024, 3327, 3660, 4026, 4428, 4871, 5358, 5894, 6484, 7132, 7845, 8630, 9493, 10442, 11487, 12635, 13899, 15289, 16818, 18500, 20350, 22385, 24623, 27086, 29794, 32767 } ;
static const int ima_adj [16] = { -1, -1, -1, -1, 2, 4, 6, 8, -1, -1, -1, -1, 2, 4, 6, 8 } ;
static int ima_nibble (int *pred, int *idx, int n)
{	int step = ima_step [*idx], diff = step >> 3 ; if (n & 1) diff += step >> 2 ; if (n & 2) diff += step >> 1 ; if (n & 4) diff += step ; if (n & 8) diff = -diff ;
	*pred += diff ; if (*pred > 32767) *pred = 32767 ; if (*pred < -32768) *pred = -32768 ;
	*idx += ima_adj [n] ; if (*idx < 0) *idx = 0 ; if (*idx > 88) *idx = 88 ; return *pred ; }
/* WAV/W64 layout: per channel 4 header bytes (predictor LE16, index, 0); then groups of 4 bytes per channel = 8 samples each, low nibble first */
static int ref_ima_wav_block (const unsigned char *blk, int blockalign, int ch, short *out /* spb*ch */, int *valid)
{	int spb = (blockalign - 4 * ch) * 2 / ch + 1, c, pred [2], idx [2], k, g, by ; const unsigned char *p = blk + 4 * ch ;
	*valid = 1 ;
	for (c = 0 ; c < ch ; c++) { pred [c] = (short) (blk [4 * c] | (blk [4 * c + 1] << 8)) ; idx [c] = blk [4 * c + 2] ; if (idx [c] > 88) { *valid = 0 ; idx [c] = 88 ; } out [c] = (short) pred [c] ; }
	for (g = 0 ; 1 + g * 8 < spb ; g++) for (c = 0 ; c < ch ; c++) for (by = 0 ; by < 4 ; by++)
	{	int b = p [(g * ch + c) * 4 + by] ; k = 1 + g * 8 + by * 2 ;
		if (k < spb) out [k * ch + c] = (short) ima_nibble (&pred [c], &idx [c], b & 15) ; if (k + 1 < spb) out [(k + 1) * ch + c] = (short) ima_nibble (&pred [c], &idx [c], b >> 4) ; }
	return spb ; }
/* AIFF (QuickTime ima4) layout: per channel one 34-byte packet: BE16 header = 9 predictor bits + 7 index bits; 64 samples, low nibble first */
static int ref_ima_aiff_block (const unsigned char *blk, int ch, short *out /* 64*ch */, int *valid)
{	int c, k ; *valid = 1 ;
	for (c = 0 ; c < ch ; c++) { const unsigned char *p = blk + 34 * c ; int pred = (short) ((p [0] << 8) | (p [1] & 0x80)), idx = p [1] & 0x7f ; if (idx > 88) { *valid = 0 ; idx = 88 ; }
		for (k = 0 ; k < 32 ; k++) { out [(2 * k) * ch + c] = (short) ima_nibble (&pred, &idx, p [2 + k] & 15) ; out [(2 * k + 1) * ch + c] = (short) ima_nibble (&pred, &idx, p [2 + k] >> 4) ; } }
	return 64 ; }
static const int ms_adapt [16] = { 230, 230, 230, 230, 307, 409, 512, 614, 768, 614, 512, 409, 307, 230, 230, 230 } ;
static const int ms_c1 [7] = { 256, 512, 0, 192, 240, 460, 392 }, ms_c2 [7] = { 0, -256, 0, 64, 0, -208, -232 } ;
/* Microsoft ADPCM: header bPredictor[ch], iDelta[ch] (int16), iSamp1[ch], iSamp2[ch]; output iSamp2, iSamp1, then nibbles (high first; stereo L,R); iDelta is a 16-bit quantity */
static int ref_ms_block (const unsigned char *blk, int blockalign, int ch, short *out, int *valid)
{	int spb = 2 + 2 * (blockalign - 7 * ch) / ch, c, k, bp [2], s1 [2], s2 [2] ; short delta [2] ; const unsigned char *p = blk + 7 * ch ; int n = 0 ;
	*valid = 1 ;
	for (c = 0 ; c < ch ; c++) { bp [c] = blk [c] ; if (bp [c] > 6) { *valid = 0 ; bp [c] = 0 ; } delta [c] = (short) (blk [ch + 2 * c] | (blk [ch + 2 * c + 1] << 8)) ; s1 [c] = (short) (blk [3 * ch + 2 * c] | (blk [3 * ch + 2 * c + 1] << 8)) ; s2 [c] = (short) (blk [5 * ch + 2 * c] | (blk [5 * ch + 2 * c + 1] << 8)) ; }
	for (c = 0 ; c < ch ; c++) { out [c] = (short) s2 [c] ; out [ch + c] = (short) s1 [c] ; }
	for (k = 2 * ch ; k < spb * ch ; k++)
	{	int b = p [n >> 1], nib = (n & 1) ? (b & 15) : (b >> 4), sn = (nib & 8) ? nib - 16 : nib, pr, cur, idl ; n++ ; c = ch > 1 ? (k % 2) : 0 ;
		idl = delta [c] ; delta [c] = (short) ((ms_adapt [nib] * idl) >> 8) ; if (delta [c] < 16) delta [c] = 16 ;
		pr = (s1 [c] * ms_c1 [bp [c]] + s2 [c] * ms_c2 [bp [c]]) >> 8 ; cur = sn * idl + pr ; if (cur > 32767) cur = 32767 ; if (cur < -32768) cur = -32768 ;
		out [k] = (short) cur ; s2 [c] = s1 [c] ; s1 [c] = cur ; }
	return spb ; }

static void adversarial_block (unsigned char *blk, int n, int kind, int codec, int ch)
{	int i ;
	switch (kind % 6) { case 0 : for (i = 0 ; i < n ; i++) blk [i] = (unsigned char) vh_rnd () ; break ; case 1 : memset (blk, 0x77, n) ; break ; case 2 : memset (blk, 0xFF, n) ; break ; case 3 : memset (blk, 0x88, n) ; break ;
		case 4 : for (i = 0 ; i < n ; i++) blk [i] = (i & 1) ? 0x7F : 0xF7 ; break ; default : for (i = 0 ; i < n ; i++) blk [i] = (unsigned char) ((vh_rnd () & 1) ? 0x08 : (vh_rnd () & 0xff)) ; }
	/* header fields: extremes, and mostly legal values so that conformance (not only memory safety) is exercised */
	if (codec == 0) for (i = 0 ; i < ch ; i++) { static const int pe [] = { 32767, -32768, 0, -1, 1, 12345 } ; int pv = pe [vh_rint (6)], ix = vh_rint (8) ? vh_rint (89) : vh_rint (256) ; blk [4 * i] = pv & 255 ; blk [4 * i + 1] = (pv >> 8) & 255 ; blk [4 * i + 2] = (unsigned char) ix ; blk [4 * i + 3] = 0 ; }
	else if (codec == 1) for (i = 0 ; i < ch ; i++) { int ix = vh_rint (8) ? vh_rint (89) : vh_rint (128) ; blk [34 * i + 1] = (blk [34 * i + 1] & 0x80) | ix ; }
	else for (i = 0 ; i < ch ; i++) { static const int de [] = { 16, 17, 0, 1, 32767, 32768, 65535, 40000, 300, 4000 } ; int d = vh_rint (3) ? de [vh_rint (10)] : (int) (vh_rnd () & 0xffff) ; blk [i] = (unsigned char) (vh_rint (10) ? vh_rint (7) : vh_rint (256)) ; blk [ch + 2 * i] = d & 255 ; blk [ch + 2 * i + 1] = d >> 8 ; }
}

static void adpcm_case (int codec /* 0 WAV IMA, 1 AIFF IMA, 2 MS */, int container, int ch, int rate, int kind)
{	int format = container | (codec == 2 ? SF_FORMAT_MS_ADPCM : SF_FORMAT_IMA_ADPCM), blockalign, spb, nblocks = 6, b, valid ; MEMF m ; SNDFILE *s ; SF_INFO ri ; SF_VERIF_STATE st ; const char *fn = vh_fname (format) ; short *ref, *got ; long N, F, g, i ;
	blockalign = codec == 1 ? 34 * ch : vh_wav_blocksize (rate * ch) ; spb = codec == 0 ? (blockalign - 4 * ch) * 2 / ch + 1 : codec == 1 ? 64 : 2 + 2 * (blockalign - 7 * ch) / ch ;
	N = (long) nblocks * spb - (kind % 2 ? 3 : 0) ;			/* last block partial in half of the cases */
	if (vh_make_file (&m, format, ch, rate, N, 1)) { mv_free (&m) ; vh_statf (1, "cannot_write:%s", fn) ; return ; }
	s = vh_open_r (&m, format, ch, rate, &ri) ; if (!s) { mv_free (&m) ; return ; } vh_state (s, &st) ; sf_close (s) ;
	if (st.dataoffset + (sf_count_t) nblocks * blockalign > m.len) { vh_viol (vh_key ("C20|adpcm-layout|%s", fn), "data section %ld+%d*%d exceeds the file (%ld): the harness block model is wrong", (long) st.dataoffset, nblocks, blockalign, (long) m.len) ; mv_free (&m) ; return ; }
	ref = calloc ((size_t) nblocks * spb * ch + 64, 2) ;
	for (b = 0 ; b < nblocks ; b++)
	{	unsigned char *blk = m.d + st.dataoffset + (sf_count_t) b * blockalign ; int v = 1 ;
		adversarial_block (blk, blockalign, kind + b, codec, ch) ;
		if (codec == 0) ref_ima_wav_block (blk, blockalign, ch, ref + (size_t) b * spb * ch, &v) ; else if (codec == 1) ref_ima_aiff_block (blk, ch, ref + (size_t) b * spb * ch, &v) ; else ref_ms_block (blk, blockalign, ch, ref + (size_t) b * spb * ch, &v) ;
		if (!v) { /* header field outside the definition: decode for memory safety only */ memset (ref + (size_t) b * spb * ch, 0x55, (size_t) spb * ch * 2) ; ref [(size_t) b * spb * ch] = 0x5555 ; }
		}
	s = vh_open_r (&m, format, ch, rate, &ri) ;
	if (!s) { vh_viol (vh_key ("C20|adpcm-reopen|%s", fn), "%s", sf_strerror (NULL)) ; free (ref) ; mv_free (&m) ; return ; }
	F = (long) ri.frames ; if (F > (long) nblocks * spb) F = (long) nblocks * spb ;
	got = vh_guard_alloc ((size_t) (F + 1) * ch * 2, 0) ; g = (long) sf_readf_short (s, got, F) ; sf_close (s) ;
	(void) valid ;
	for (b = 0 ; b < nblocks ; b++)
	{	long lo = (long) b * spb, hi = lo + spb ; if (hi > g) hi = g ; if (lo >= hi) break ;
		if ((unsigned short) ref [lo * ch] == 0x5555 && (unsigned short) ref [lo * ch + 1] == 0x5555) { vh_stat ("adpcm_blocks_outside_definition", 1) ; continue ; }
		vh_stat ("adpcm_blocks_compared", 1) ;
		for (i = lo * ch ; i < hi * ch ; i++) if (got [i] != ref [i])
		{	vh_viol (vh_key ("C20|adpcm-decode|%s|%s", fn, codec == 0 ? "ima-wav" : codec == 1 ? "ima-aiff" : "ms"), "ch=%d blockalign=%d block %d (pattern %d): sample %ld of the block decodes to %d, reference %d", ch, blockalign, b, (kind + b) % 6, (i - lo * ch) / ch, got [i], ref [i]) ; b = nblocks ; break ; }
		}
	free (got) ; free (ref) ; mv_free (&m) ;
}

/* ---- G.721 / G.723: the limits ITU-T G.726 puts on the predictor and scale-factor state hold for every code stream and every input signal.
** (No independent reference decoder: encoder and decoder share update(), so round trips are blind to a wrong limiter; the state limits are
** part of the published definition and are observed by a read-only hook in update().) */
extern long sf_verif_g72x_limit_violations ;
static void g72x_case (int format, int bits, int kind)
{	MEMF m ; SNDFILE *s ; SF_INFO ri ; SF_VERIF_STATE st ; const char *fn = vh_fname (format) ; long N = 120 * 40, i, nbytes ; short *pcm = malloc (sizeof (short) * (N + 256)) ; long before = sf_verif_g72x_limit_violations ;
	/* (a) decode an adversarial code stream */
	for (i = 0 ; i < N ; i++) pcm [i] = (short) (3000 * sin (i * 0.05)) ;
	memset (&m, 0, sizeof (m)) ; s = vh_open_w (&m, format, 1, 8000, NULL) ; if (!s) { free (pcm) ; return ; }
	sf_write_short (s, pcm, N) ; sf_close (s) ;
	s = vh_open_r (&m, format, 1, 8000, &ri) ; if (!s) { free (pcm) ; mv_free (&m) ; return ; }
	vh_state (s, &st) ; sf_close (s) ;
	nbytes = (long) (m.len - st.dataoffset) ;
	{	unsigned char *d = m.d + st.dataoffset ; uint64_t acc = 0 ; int nb = 0 ; long o = 0, k = 0 ; int maxmag = (1 << (bits - 1)) - 1, sign = 1 << (bits - 1) ;
		int runlen = 1 + kind % 37, altlen = 1 + (kind / 37) % 29, mag = maxmag - (kind / 1073) % (maxmag > 1 ? 3 : 1) ;
		while (o < nbytes)
		{	int code ;
			if (kind % 5 == 4) code = (int) (vh_rnd () & ((1u << bits) - 1)) ;												/* random codes */
			else { long ph = k % (runlen + altlen) ; code = ph < runlen ? mag : ((ph - runlen) & 1) ? (mag | sign) : mag ; if ((k / (runlen + altlen)) & 1 && kind % 5 == 3) code ^= sign ; }
			k++ ; acc |= (uint64_t) code << nb ; nb += bits ;
			while (nb >= 8 && o < nbytes) { d [o++] = (unsigned char) (acc & 0xff) ; acc >>= 8 ; nb -= 8 ; }
			} }
	s = vh_open_r (&m, format, 1, 8000, &ri) ;
	if (s) { sf_count_t g ; while ((g = sf_read_short (s, pcm, 256)) > 0) ; sf_close (s) ; vh_stat ("g72x_streams_decoded", 1) ; }
	mv_free (&m) ;
	/* (b) encode an extreme signal */
	for (i = 0 ; i < N ; i++)
	{	int per = 2 + kind % 61 ; double v ;
		switch (kind % 4) { case 0 : v = ((i / per) & 1) ? 1.0 : -1.0 ; break ; case 1 : v = ((int) (vh_rnd () % 65536) - 32768) / 32768.0 ; break ; case 2 : v = (i % (3 * per) < per) ? 0.999 : ((i & 1) ? -0.999 : 0.999) ; break ; default : v = sin (i * 0.7 * (1 + kind % 9)) ; }
		pcm [i] = (short) (v * 32767) ; }
	memset (&m, 0, sizeof (m)) ; s = vh_open_w (&m, format, 1, 8000, NULL) ;
	if (s) { sf_write_short (s, pcm, N) ; sf_close (s) ; vh_stat ("g72x_signals_encoded", 1) ; }
	mv_free (&m) ; free (pcm) ;
	if (sf_verif_g72x_limit_violations != before)
		vh_viol (vh_key ("C20|g72x-state-limits|%s", fn), "pattern %d: the predictor / scale-factor state left the range G.726 prescribes (|a2| <= 0.75, |a1| <= 15/16 - a2, 544 <= yu <= 5120) %ld times", kind, sf_verif_g72x_limit_violations - before) ;
}

int main (int argc, char **argv)
{	uint32_t blk ; int big, e, sgn, k ;
	vh_init (argc, argv, "c20_codec_kernels", "C20") ;
	if (vh_case ("G.711 mu-law exhaustive")) { vh_distinct (1) ; vh_sample ("mu-law: 256 codes x 4 read types; 65536 inputs x 4 write types against the arithmetic G.711 reference") ; g711_all (0) ; }
	if (vh_case ("G.711 A-law exhaustive")) { vh_distinct (2) ; g711_all (1) ; }
	{	static const int subs [] = { SF_FORMAT_PCM_16, SF_FORMAT_PCM_24, SF_FORMAT_PCM_32, SF_FORMAT_FLOAT, SF_FORMAT_DOUBLE } ; for (k = 0 ; k < 5 ; k++) if (vh_case ("byte-order twins %s", vh_short_sub (subs [k]))) { vh_distinct (10 + k) ; endian_twins (subs [k]) ; } }
	/* float patterns: thorough = every pattern (65536 blocks of 65536 consecutive patterns); quick = 2^24: every exponent/sign (512) x the top 7 mantissa bits, 65536 patterns with stride 1 at each */
	for (big = 0 ; big < 2 ; big++)
	{	if (vh_thorough) { for (blk = 0 ; blk < 65536 ; blk++) if (vh_case ("float block %u %s", blk, big ? "BE" : "LE")) { vh_distinct (((uint64_t) blk << 8) | big | 0x100000000ULL) ; ieee_float_block (blk << 16, 1, big) ; } }
		else for (blk = 0 ; blk < 256 ; blk++) if (vh_case ("float stratum %u %s", blk, big ? "BE" : "LE")) { vh_distinct (((uint64_t) blk << 8) | big | 0x200000000ULL) ; if (blk == 3) vh_sample ("float bit patterns 0x%08x + i*%u, i < 65536, %s-endian RAW file with SFC_TEST_IEEE_FLOAT_REPLACE", blk << 24, 251, big ? "big" : "little") ; ieee_float_block (blk << 24, 251, big) ; ieee_float_block ((blk << 24) | 0x7f0000, 1, big) ; }
		for (sgn = 0 ; sgn < 2 ; sgn++) for (e = 0 ; e < 2048 ; e += 128) { int rep, nrep = vh_thorough ? 40 : 4 ; for (rep = 0 ; rep < nrep ; rep++) if (vh_case ("double exponents %d.. sign %d %s rep %d", e, sgn, big ? "BE" : "LE", rep)) { vh_distinct (((uint64_t) e << 16) | ((uint64_t) sgn << 8) | big | ((uint64_t) rep << 40) | 0x300000000ULL) ; ieee_double_block (sgn, e, big) ; } }
		}
	{	static const int rates [] = { 8000, 16000, 32000, 48000 } ; int r, ch, kind, nk = vh_thorough ? 600 : 150 ;
		for (r = 0 ; r < 4 ; r++) for (ch = 1 ; ch <= 2 ; ch++) for (kind = 0 ; kind < nk ; kind++)
		{	if (vh_case ("WAV IMA rate=%d ch=%d pattern=%d", rates [r], ch, kind)) { vh_distinct (0x400000000ULL | (r << 20) | (ch << 16) | kind) ; if (kind == 0 && ch == 2) vh_sample ("WAV IMA ADPCM, rate %d, %d ch (block align %d): 6 blocks overwritten with random/adversarial bytes, decoded by sf_readf_short vs the reference decoder", rates [r], ch, vh_wav_blocksize (rates [r] * ch)) ; adpcm_case (0, SF_FORMAT_WAV, ch, rates [r], kind) ; }
			if (vh_case ("W64 IMA rate=%d ch=%d pattern=%d", rates [r], ch, kind)) { vh_distinct (0x500000000ULL | (r << 20) | (ch << 16) | kind) ; adpcm_case (0, SF_FORMAT_W64, ch, rates [r], kind) ; }
			if (vh_case ("WAV MS rate=%d ch=%d pattern=%d", rates [r], ch, kind)) { vh_distinct (0x600000000ULL | (r << 20) | (ch << 16) | kind) ; adpcm_case (2, SF_FORMAT_WAV, ch, rates [r], kind) ; }
			if (vh_case ("W64 MS rate=%d ch=%d pattern=%d", rates [r], ch, kind)) { vh_distinct (0x700000000ULL | (r << 20) | (ch << 16) | kind) ; adpcm_case (2, SF_FORMAT_W64, ch, rates [r], kind) ; }
			if (r == 0 && vh_case ("AIFF IMA ch=%d pattern=%d", ch, kind)) { vh_distinct (0x800000000ULL | (ch << 16) | kind) ; adpcm_case (1, SF_FORMAT_AIFF, ch, 8000, kind) ; }
			}
		}
	{	static const int gf [][2] = { { SF_FORMAT_AU | SF_FORMAT_G721_32, 4 }, { SF_FORMAT_AU | SF_FORMAT_G723_24, 3 }, { SF_FORMAT_AU | SF_FORMAT_G723_40, 5 }, { SF_FORMAT_WAV | SF_FORMAT_G721_32, 4 } } ; int g, kind, nk = vh_thorough ? 6000 : 800 ;
		for (g = 0 ; g < 4 ; g++) for (kind = 0 ; kind < nk ; kind++)
			if (vh_case ("%s state limits pattern=%d", vh_fname (gf [g][0]), kind)) { vh_distinct (0x900000000ULL | ((uint64_t) g << 20) | kind) ; if (kind == 1) vh_sample ("%s: code streams of runs of equal-sign codes followed by alternating-sign codes (run lengths 1..37 x 1..29, three magnitudes, random codes) decoded, extreme signals encoded; G.726 state limits observed in update()", vh_fname (gf [g][0])) ; g72x_case (gf [g][0], gf [g][1], kind) ; }
		}
	return vh_finish () ;
}
