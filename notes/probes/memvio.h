#include <sndfile.h>
#include <stdio.h>
#include <stdlib.h>
#include <string.h>
#include <stdint.h>

typedef struct { unsigned char *d; sf_count_t len, cap, pos; long ncalls; } MEMF;
static sf_count_t mv_len(void *u){ MEMF*m=u; m->ncalls++; return m->len; }
static sf_count_t mv_seek(sf_count_t off,int wh,void*u){ MEMF*m=u; m->ncalls++; sf_count_t p; if(wh==SEEK_SET)p=off; else if(wh==SEEK_CUR)p=m->pos+off; else p=m->len+off; if(p<0) return -1; m->pos=p; return p; }
static sf_count_t mv_read(void*ptr,sf_count_t c,void*u){ MEMF*m=u; m->ncalls++; if(m->pos>=m->len||c<=0) return 0; if(c>m->len-m->pos)c=m->len-m->pos; memcpy(ptr,m->d+m->pos,c); m->pos+=c; return c; }
static sf_count_t mv_write(const void*ptr,sf_count_t c,void*u){ MEMF*m=u; m->ncalls++; if(c<=0) return 0; if(m->pos+c>m->cap){ sf_count_t nc=(m->pos+c)*2+4096; m->d=realloc(m->d,nc); memset(m->d+m->cap,0,nc-m->cap); m->cap=nc;} if(m->pos>m->len) memset(m->d+m->len,0,m->pos-m->len); memcpy(m->d+m->pos,ptr,c); m->pos+=c; if(m->pos>m->len)m->len=m->pos; return c; }
static sf_count_t mv_tell(void*u){ MEMF*m=u; m->ncalls++; return m->pos; }
static SF_VIRTUAL_IO MVIO = { mv_len, mv_seek, mv_read, mv_write, mv_tell };

static uint64_t rng_s = 88172645463325252ULL;
static uint64_t rnd(void){ rng_s^=rng_s<<13; rng_s^=rng_s>>7; rng_s^=rng_s<<17; return rng_s; }
