/* probe 1: enumerate formats; write N frames short/int; reopen; compare; report frames */
#include "memvio.h"

static const char* subname(int f){ SF_FORMAT_INFO i; i.format=f&SF_FORMAT_SUBMASK; if(sf_command(NULL,SFC_GET_FORMAT_INFO,&i,sizeof i)) return "?"; return i.name; }
static const char* majname(int f){ SF_FORMAT_INFO i; i.format=f&SF_FORMAT_TYPEMASK; if(sf_command(NULL,SFC_GET_FORMAT_INFO,&i,sizeof i)) return "?"; return i.name; }

int main(int argc,char**argv){
  int nmaj,nsub; sf_command(NULL,SFC_GET_FORMAT_MAJOR_COUNT,&nmaj,sizeof nmaj); sf_command(NULL,SFC_GET_FORMAT_SUBTYPE_COUNT,&nsub,sizeof nsub);
  int Ns[]={0,1,2,3,7,63,64,65,119,120,121,255,256,257,1000,4097,10001};
  for(int a=0;a<nmaj;a++){ SF_FORMAT_INFO mi; mi.format=a; sf_command(NULL,SFC_GET_FORMAT_MAJOR,&mi,sizeof mi);
    for(int b=0;b<nsub;b++){ SF_FORMAT_INFO si; si.format=b; sf_command(NULL,SFC_GET_FORMAT_SUBTYPE,&si,sizeof si);
      for(int ch=1;ch<=2;ch++){
      SF_INFO info={0}; info.format=mi.format|si.format; info.channels=ch; info.samplerate=8000;
      if(!sf_format_check(&info)) continue;
      if((mi.format)==SF_FORMAT_SD2) continue;
      printf("%-28s %-22s ch%d:", mi.name, si.name, ch);
      for(unsigned k=0;k<sizeof Ns/sizeof*Ns;k++){ int N=Ns[k];
        MEMF m={0}; SF_INFO wi=info; wi.frames=12345;
        SNDFILE*s=sf_open_virtual(&MVIO,SFM_WRITE,&wi,&m);
        if(!s){ printf(" OPENFAIL(%s)",sf_strerror(NULL)); break; }
        short *buf=malloc(sizeof(short)*N*ch+2); for(int i=0;i<N*ch;i++) buf[i]=(short)rnd();
        sf_count_t w= N? sf_writef_short(s,buf,N):0;
        int werr=sf_error(s);
        int ce=sf_close(s);
        SF_INFO ri={0}; m.pos=0;
        if(mi.format==SF_FORMAT_RAW){ ri=info; }
        SNDFILE*r=sf_open_virtual(&MVIO,SFM_READ,&ri,&m);
        if(!r){ printf(" N=%d:w=%ld,REOPENFAIL(%s)",N,(long)w,sf_strerror(NULL)); free(buf); free(m.d); continue; }
        short *rb=calloc(sizeof(short),(N+5000)*ch);
        sf_count_t got=sf_readf_short(r,rb,N+5000);
        int exact = (got>=N) && memcmp(rb,buf,sizeof(short)*N*ch)==0;
        if(w!=N||ri.frames!=N||got!=ri.frames||werr||ce|| (ri.format!=info.format) || ri.channels!=ch|| ri.samplerate!=8000)
          { printf(" %d:",N); if(w!=N)printf("w%ld",(long)w); if(ri.frames!=N)printf("F%ld",(long)ri.frames); if(got!=ri.frames)printf("got%ld",(long)got); if(werr)printf("we%d",werr); if(ce)printf("ce%d",ce); if(ri.format!=info.format)printf("fmt%x",ri.format); if(ri.samplerate!=8000)printf("sr%d",ri.samplerate); printf(exact?"":"~"); }
        else if(!exact) printf(" %d~",N);
        sf_close(r); free(buf); free(rb); free(m.d);
      }
      printf("\n");
    }}}
  return 0;
}
