#include "memvio.h"
int main(void){ setvbuf(stdout,NULL,_IONBF,0);
 { SF_INFO wi={0}; wi.format=SF_FORMAT_AIFF|SF_FORMAT_DWVW_16; wi.channels=1; wi.samplerate=8000; MEMF m={0}; SNDFILE*s=sf_open_virtual(&MVIO,SFM_WRITE,&wi,&m); short d[1000]; for(int i=0;i<1000;i++)d[i]=i*7; sf_write_short(s,d,1000); sf_close(s);
   SF_INFO ri={0}; m.pos=0; SNDFILE*r=sf_open_virtual(&MVIO,SFM_READ,&ri,&m); short b[100]; sf_read_short(r,b,100); printf("pos %ld\n",(long)sf_seek(r,0,SEEK_CUR)); sf_count_t q=sf_seek(r,500,SEEK_SET); printf("seek500 -> %ld err %d\n",(long)q,sf_error(r)); printf("pos after failed seek %ld\n",(long)sf_seek(r,0,SEEK_CUR)); sf_count_t g=sf_read_short(r,b,100); printf("read %ld first %d (expect %d if pos kept)\n",(long)g,b[0],100*7); printf("pos %ld\n",(long)sf_seek(r,0,SEEK_CUR)); sf_close(r); }
 { SF_INFO wi={0}; wi.format=SF_FORMAT_WAV|SF_FORMAT_ULAW; wi.channels=1; wi.samplerate=8000; MEMF m={0}; SNDFILE*s=sf_open_virtual(&MVIO,SFM_WRITE,&wi,&m); sf_command(s,SFC_SET_CLIPPING,NULL,SF_TRUE); float f[4]={0.5f,1.0f,1.5f,-3.0f}; sf_count_t w=sf_write_float(s,f,4); printf("ulaw write %ld\n",(long)w); sf_close(s);} 
 return 0; }
