#include "memvio.h"
#include <unistd.h>
#include <time.h>
#include <errno.h>
#include <math.h>
/* --wrap test */
static long nread, nwrite; static int fail_at=-1;
ssize_t __real_write(int,const void*,size_t); ssize_t __wrap_write(int fd,const void*b,size_t n){ nwrite++; if(fail_at>=0&&nwrite>=fail_at&&fd>2){ errno=ENOSPC; return -1;} return __real_write(fd,b,n);} 
ssize_t __real_read(int,void*,size_t); ssize_t __wrap_read(int fd,void*b,size_t n){ nread++; return __real_read(fd,b,n);} 
time_t __real_time(time_t*); time_t __wrap_time(time_t*t){ if(t)*t=1000000000; return 1000000000; }
int main(void){ setvbuf(stdout,NULL,_IONBF,0);
 /* 1: fd route with failing write */
 { SF_INFO wi={0}; wi.format=SF_FORMAT_WAV|SF_FORMAT_FLOAT; wi.channels=1; wi.samplerate=8000; SNDFILE*s=sf_open("/tmp/probe/t11.wav",SFM_WRITE,&wi); float d[100]={0.5f}; fail_at=nwrite+3; sf_count_t w=sf_write_float(s,d,100); printf("w=%ld err=%d (%s) nwrite=%ld\n",(long)w,sf_error(s),sf_strerror(s),nwrite); w=sf_write_float(s,d,100); printf("w2=%ld\n",(long)w); fail_at=-1; int ce=sf_close(s); printf("close=%d\n",ce);
   unsigned char hdr[64]; FILE*f=fopen("/tmp/probe/t11.wav","rb"); size_t n=fread(hdr,1,64,f); fclose(f); printf("len read %zu\n",n); }
 /* 2: IEEE replace on RAW float via vio */
 { SF_INFO wi={0}; wi.format=SF_FORMAT_RAW|SF_FORMAT_FLOAT|SF_ENDIAN_LITTLE; wi.channels=1; wi.samplerate=8000; MEMF m={0}; SNDFILE*s=sf_open_virtual(&MVIO,SFM_WRITE,&wi,&m); int r=sf_command(s,SFC_TEST_IEEE_FLOAT_REPLACE,NULL,SF_TRUE); float v[6]={1.0f,-0.3f,1e-31f,3.4e38f,1.1754944e-38f,123456.789f}; sf_write_float(s,v,6); sf_close(s); printf("replace cmd ret %d len %ld\n",r,(long)m.len); for(int i=0;i<6;i++){ float g; memcpy(&g,m.d+4*i,4); printf("  %g -> %g %s\n",v[i],g, memcmp(&g,&v[i],4)?"DIFF":"same"); }
   SF_INFO ri=wi; m.pos=0; SNDFILE*rr=sf_open_virtual(&MVIO,SFM_READ,&ri,&m); sf_command(rr,SFC_TEST_IEEE_FLOAT_REPLACE,NULL,SF_TRUE); float b[6]; memcpy(m.d,v,24); sf_read_float(rr,b,6); for(int i=0;i<6;i++) printf("  read %g -> %g %s\n",v[i],b[i],memcmp(&b[i],&v[i],4)?"DIFF":"same"); sf_close(rr);} 
 /* 3: RDWR on vio */
 { SF_INFO wi={0}; wi.format=SF_FORMAT_WAV|SF_FORMAT_PCM_16; wi.channels=1; wi.samplerate=8000; MEMF m={0}; SNDFILE*s=sf_open_virtual(&MVIO,SFM_RDWR,&wi,&m); if(!s){printf("rdwr vio open fail %s\n",sf_strerror(NULL));} else { short d[10]={1,2,3,4,5,6,7,8,9,10}; printf("w %ld\n",(long)sf_write_short(s,d,10)); printf("rp %ld wp %ld\n",(long)sf_seek(s,0,SEEK_CUR|SFM_READ),(long)sf_seek(s,0,SEEK_CUR|SFM_WRITE)); short b[4]; printf("r %ld first %d\n",(long)sf_read_short(s,b,4),b[0]); printf("rp %ld wp %ld\n",(long)sf_seek(s,0,SEEK_CUR|SFM_READ),(long)sf_seek(s,0,SEEK_CUR|SFM_WRITE)); printf("plain CUR0 -> %ld\n",(long)sf_seek(s,0,SEEK_CUR)); printf("rp %ld wp %ld\n",(long)sf_seek(s,0,SEEK_CUR|SFM_READ),(long)sf_seek(s,0,SEEK_CUR|SFM_WRITE)); sf_seek(s,2,SEEK_SET|SFM_WRITE); short e[2]={100,101}; sf_write_short(s,e,2); sf_seek(s,0,SEEK_SET|SFM_READ); short all[12]; sf_count_t g=sf_read_short(s,all,12); printf("read all %ld:",(long)g); for(int i=0;i<g;i++)printf(" %d",all[i]); printf("\n"); sf_close(s);} }
 return 0; }
