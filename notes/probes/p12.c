#include "memvio.h"
int main(int argc,char**argv){ setvbuf(stdout,NULL,_IONBF,0); int usefile=argc>1;
 SF_INFO wi={0}; wi.format=SF_FORMAT_WAV|SF_FORMAT_PCM_16; wi.channels=1; wi.samplerate=8000; MEMF m={0}; SNDFILE*s= usefile? sf_open("/tmp/probe/t12.wav",SFM_RDWR,&wi): sf_open_virtual(&MVIO,SFM_RDWR,&wi,&m); if(!s){puts(sf_strerror(NULL));return 1;}
 short d[10]={1,2,3,4,5,6,7,8,9,10}; printf("w %ld\n",(long)sf_write_short(s,d,10)); short b[4]={-1,-1,-1,-1}; sf_count_t r=sf_read_short(s,b,4); printf("r %ld: %d %d %d %d err %d\n",(long)r,b[0],b[1],b[2],b[3],sf_error(s));
 r=sf_read_short(s,b,4); printf("r %ld: %d %d %d %d\n",(long)r,b[0],b[1],b[2],b[3]); sf_close(s); return 0; }
