/* probe 14: RDWR random walk vs model on every format that opens RDWR (mono, int data via short API for 16+ bit) */
#include "memvio.h"
static int nfmt; static SF_INFO fmts[400]; static char names[400][96];
static void enumerate(void){ int nmaj,nsub; sf_command(NULL,SFC_GET_FORMAT_MAJOR_COUNT,&nmaj,sizeof nmaj); sf_command(NULL,SFC_GET_FORMAT_SUBTYPE_COUNT,&nsub,sizeof nsub);
  for(int a=0;a<nmaj;a++){ SF_FORMAT_INFO mi; mi.format=a; sf_command(NULL,SFC_GET_FORMAT_MAJOR,&mi,sizeof mi);
    for(int b=0;b<nsub;b++){ SF_FORMAT_INFO si; si.format=b; sf_command(NULL,SFC_GET_FORMAT_SUBTYPE,&si,sizeof si);
      SF_INFO info={0}; info.format=mi.format|si.format; info.channels=1; info.samplerate=8000; if(!sf_format_check(&info)) continue; if(mi.format==SF_FORMAT_SD2) continue;
      int c=si.format; if(!(c==SF_FORMAT_PCM_16||c==SF_FORMAT_PCM_24||c==SF_FORMAT_PCM_32||c==SF_FORMAT_FLOAT||c==SF_FORMAT_DOUBLE)) continue;
        fmts[nfmt]=info; snprintf(names[nfmt],96,"%.30s/%.30s",mi.name,si.name); nfmt++; }}}
#define MAXF 4000
int main(int argc,char**argv){ setvbuf(stdout,NULL,_IONBF,0); enumerate(); uint64_t seed=argc>1?atoll(argv[1]):1;
 for(int f=0;f<nfmt;f++){ SF_INFO wi=fmts[f]; MEMF m={0}; SNDFILE*s=sf_open_virtual(&MVIO,SFM_RDWR,&wi,&m); printf("%-50s: ",names[f]); if(!s){ printf("no RDWR (%s)\n",sf_strerror(NULL)); continue; }
   short model[MAXF]; int known[MAXF]; memset(known,0,sizeof known); long rp=0,wp=0,F=0; short ctr=1; rng_s=seed*77+f+1; int bad=0; int steps=0;
   for(int it=0;it<300&&!bad;it++){ int op=rnd()%8; steps++;
     if(op<2){ int k=1+rnd()%9; if(wp+k>=MAXF) continue; short buf[16]; for(int i=0;i<k;i++) buf[i]=ctr++; sf_count_t w=sf_write_short(s,buf,k); if(w!=k){printf("write ret %ld!=%d ",(long)w,k);bad=1;break;} for(int i=0;i<k;i++){ model[wp+i]=buf[i]; known[wp+i]=1;} wp+=k; if(wp>F)F=wp; }
     else if(op<4){ int k=1+rnd()%9; short buf[16]; for(int i=0;i<16;i++)buf[i]=-7777; sf_count_t r=sf_read_short(s,buf,k); long exp= rp<F? (F-rp<k?F-rp:k):0; if(r!=exp){ printf("read ret %ld exp %ld (rp %ld wp %ld F %ld) ",(long)r,exp,rp,wp,F); bad=1; break;} for(int i=0;i<r;i++) if(known[rp+i]&&buf[i]!=model[rp+i]){ printf("read data @%ld got %d exp %d ",rp+i,buf[i],model[rp+i]); bad=1; break;} rp+=r; }
     else if(op<7){ int wh=rnd()%3; int md=rnd()%3; long base= wh==0?0: wh==2?F: (md==1?rp: wp); long tgt= (rnd()%4==0)? F : (long)(rnd()%(F+3)); if(wh==1&&md==0&&rp!=wp) continue; /* ambiguous */ long off=tgt-base; int whence=(wh==0?SEEK_SET:wh==1?SEEK_CUR:SEEK_END)|(md==1?SFM_READ:md==2?SFM_WRITE:0); sf_count_t q=sf_seek(s,off,whence); if(tgt<0){ if(q!=-1){printf("neg seek ok? ");bad=1;} continue;} if(q!=tgt){ printf("seek(%ld,wh%d,md%d) -> %ld want %ld (rp %ld wp %ld F %ld err %d) ",off,wh,md,(long)q,tgt,rp,wp,F,sf_error(s)); bad=1; break;} if(md==1)rp=tgt; else if(md==2)wp=tgt; else rp=wp=tgt; }
     else { sf_count_t a=sf_seek(s,0,SEEK_CUR|SFM_READ), b=sf_seek(s,0,SEEK_CUR|SFM_WRITE); if(a!=rp||b!=wp){ printf("positions rp %ld(model %ld) wp %ld(model %ld) ",(long)a,rp,(long)b,wp); bad=1; break;} }
   }
   int ce=sf_close(s); if(!bad){ SF_INFO ri={0}; m.pos=0; if((wi.format&SF_FORMAT_TYPEMASK)==SF_FORMAT_RAW) ri=wi; SNDFILE*r=sf_open_virtual(&MVIO,SFM_READ,&ri,&m); if(!r){printf("reopen fail %s",sf_strerror(NULL));} else { if(ri.frames!=F) printf("final frames %ld model %ld ",(long)ri.frames,F); short*all=calloc(2,ri.frames+1); sf_read_short(r,all,ri.frames); for(long i=0;i<F&&i<ri.frames;i++) if(known[i]&&all[i]!=model[i]){ printf("final data @%ld got %d exp %d ",i,all[i],model[i]); break;} free(all); sf_close(r);} }
   printf("%s steps %d close %d\n",bad?"MISMATCH":"ok",steps,ce); free(m.d);} return 0; }
