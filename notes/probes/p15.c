/* probe 15: embedded read via sf_open_fd at offset + close_desc semantics + PEAK */
#include "memvio.h"
#include <unistd.h>
#include <fcntl.h>
int main(void){ setvbuf(stdout,NULL,_IONBF,0); int F[]={SF_FORMAT_WAV|SF_FORMAT_PCM_16,SF_FORMAT_AIFF|SF_FORMAT_PCM_24,SF_FORMAT_AU|SF_FORMAT_FLOAT,SF_FORMAT_WAVEX|SF_FORMAT_PCM_16,SF_FORMAT_CAF|SF_FORMAT_PCM_16,SF_FORMAT_W64|SF_FORMAT_PCM_16};
 for(int i=0;i<6;i++){ SF_INFO wi={0}; wi.format=F[i]; wi.channels=2; wi.samplerate=44100; MEMF m={0}; SNDFILE*s=sf_open_virtual(&MVIO,SFM_WRITE,&wi,&m); short d[400]; for(int k=0;k<400;k++)d[k]=k*3; sf_write_short(s,d,400); sf_close(s);
   for(int off=0;off<=4096;off= off?off*64:1){ char path[]="/tmp/probe/embXXXXXX"; int fd=mkstemp(path); char junk[5000]; memset(junk,0x55,sizeof junk); write(fd,junk,off); write(fd,m.d,m.len); write(fd,junk,777); lseek(fd,off,SEEK_SET);
     for(int cd=0;cd<2;cd++){ lseek(fd,off,SEEK_SET); SF_INFO ri={0}; SNDFILE*r=sf_open_fd(fd,SFM_READ,&ri,cd); if(!r){ printf("fmt %x off %d cd %d: open fail: %s\n",F[i],off,cd,sf_strerror(NULL)); if(cd&&fcntl(fd,F_GETFD)!=-1) printf("   (fd still open after failed open with close_desc=1)\n"); continue;} short b[400]; sf_count_t g=sf_read_short(r,b,400); SF_EMBED_FILE_INFO e; sf_command(r,SFC_GET_EMBED_FILE_INFO,&e,sizeof e); int ce=sf_close(r); int open_after= fcntl(fd,F_GETFD)!=-1; printf("fmt %x off %4d cd %d: frames %ld got %ld data %s embed(%ld,%ld) close %d fd-open-after %d\n",F[i],off,cd,(long)ri.frames,(long)g,memcmp(b,d,800)?"DIFF":"=",(long)e.offset,(long)e.length,ce,open_after); if(!open_after) fd=open(path,O_RDWR); }
     close(fd); unlink(path);} free(m.d);} return 0; }
