/* probe 16: PEAK chunk values/positions and CALC commands; samplerate grid */
#include "memvio.h"
#include <math.h>
int main(void){ setvbuf(stdout,NULL,_IONBF,0);
 int C[]={SF_FORMAT_WAV,SF_FORMAT_WAVEX,SF_FORMAT_AIFF,SF_FORMAT_CAF,SF_FORMAT_RF64}; int E[]={SF_FORMAT_FLOAT,SF_FORMAT_DOUBLE};
 for(int ci=0;ci<5;ci++) for(int ei=0;ei<2;ei++) for(int ch=1;ch<=3;ch+=2) for(int part=0;part<3;part++){ SF_INFO wi={0}; wi.format=C[ci]|E[ei]; wi.channels=ch; wi.samplerate=48000; MEMF m={0}; SNDFILE*s=sf_open_virtual(&MVIO,SFM_WRITE,&wi,&m); if(!s){printf("open fail\n");continue;} if(C[ci]==SF_FORMAT_RF64) sf_command(s,SFC_SET_ADD_PEAK_CHUNK,NULL,SF_TRUE);
   int N=1000; float *d=malloc(4*N*ch); rng_s=ci*100+ei*10+ch+part*7+1; for(int i=0;i<N*ch;i++) d[i]=(float)((int)(rnd()%2001)-1000)/4000.0f; double tm[8]={0}; long tp[8]={0};
   /* plant maxima: ch0 at frame 0 (negative), ch1 at last frame, ch2 tie at 499 and 500 (boundary) */
   d[0*ch+0]=-0.9f; if(ch>1){ d[(N-1)*ch+1]=0.8f; } if(ch>2){ d[499*ch+2]=0.7f; d[500*ch+2]=-0.7f; }
   for(int c=0;c<ch;c++){ tm[c]=0; for(int i=0;i<N;i++){ double a=fabs(d[i*ch+c]); if(a>tm[c]){tm[c]=a;tp[c]=i;} } }
   int done=0; while(done<N){ int k= part==0?N: part==1?(done<500?500-done:N-done): 1+rnd()%7; if(k>N-done)k=N-done; sf_writef_float(s,d+done*ch,k); done+=k; }
   sf_close(s); SF_INFO ri={0}; m.pos=0; SNDFILE*r=sf_open_virtual(&MVIO,SFM_READ,&ri,&m); double mx=-1, all[8]; int g1=sf_command(r,SFC_GET_SIGNAL_MAX,&mx,sizeof mx); int g2=sf_command(r,SFC_GET_MAX_ALL_CHANNELS,all,sizeof(double)*ch);
   sf_seek(r,123,SEEK_SET); double cm; sf_command(r,SFC_CALC_SIGNAL_MAX,&cm,sizeof cm); double call[8]; sf_command(r,SFC_CALC_MAX_ALL_CHANNELS,call,sizeof(double)*ch); sf_count_t pos=sf_seek(r,0,SEEK_CUR);
   int ok=g1&&g2; double tmax=0; for(int c=0;c<ch;c++){ if(tm[c]>tmax)tmax=tm[c]; if(all[c]!=tm[c]||call[c]!=tm[c]) ok=0;} if(mx!=tmax||cm!=tmax||pos!=123) ok=0;
   /* find PEAK chunk positions by scanning file for 'PEAK' / 'peak' */
   long pp[8]; int found=0; for(long i=0;i+8<m.len&&!found;i++) if(!memcmp(m.d+i,"PEAK",4)){ found=1; int be=(C[ci]==SF_FORMAT_AIFF); for(int c=0;c<ch;c++){ unsigned char*q=m.d+i+8+8+c*8+4; pp[c]= be? (q[0]<<24|q[1]<<16|q[2]<<8|q[3]) : (q[3]<<24|q[2]<<16|q[1]<<8|q[0]); } }
   int posok=1; if(found) for(int c=0;c<ch;c++) if(pp[c]!=tp[c]) posok=0;
   printf("%05x/%x ch%d part%d: get %d/%d max %s calc %s pos-kept %s peakpos %s",C[ci]>>12,E[ei],ch,part,g1,g2,(mx==tmax)?"=":"DIFF",(cm==tmax)?"=":"DIFF",pos==123?"y":"N",found?(posok?"=":"DIFF"):"notfound"); if(found&&!posok){ for(int c=0;c<ch;c++) printf(" [c%d %ld want %ld]",c,pp[c],tp[c]); } printf("\n"); sf_close(r); free(d); free(m.d);} 
 /* samplerate grid */
 int nmaj; sf_command(NULL,SFC_GET_FORMAT_MAJOR_COUNT,&nmaj,sizeof nmaj); int rates[]={1,2,4000,8000,11025,44100,65535,65536,96000,192000,16777217,2147483647};
 for(int a=0;a<nmaj;a++){ SF_FORMAT_INFO mi; mi.format=a; sf_command(NULL,SFC_GET_FORMAT_MAJOR,&mi,sizeof mi); int subs[]={SF_FORMAT_PCM_16,SF_FORMAT_PCM_S8,SF_FORMAT_ALAW,SF_FORMAT_DPCM_16}; SF_INFO wi={0}; int okf=0; for(int k=0;k<4&&!okf;k++){ wi.format=mi.format|subs[k]; wi.channels=1; wi.samplerate=8000; okf=sf_format_check(&wi);} if(!okf||mi.format==SF_FORMAT_SD2||mi.format==SF_FORMAT_RAW) continue; printf("%-34.34s:",mi.name);
   for(unsigned ri=0;ri<sizeof rates/sizeof*rates;ri++){ wi.samplerate=rates[ri]; MEMF m={0}; SF_INFO w2=wi; SNDFILE*s=sf_open_virtual(&MVIO,SFM_WRITE,&w2,&m); if(!s){ printf(" %d:openfail",rates[ri]); continue;} short d[64]={0}; sf_write_short(s,d,64); sf_close(s); SF_INFO r2={0}; m.pos=0; SNDFILE*r=sf_open_virtual(&MVIO,SFM_READ,&r2,&m); if(!r){ printf(" %d:REOPENFAIL",rates[ri]); free(m.d); continue;} if(r2.samplerate!=rates[ri]) printf(" %d->%d",rates[ri],r2.samplerate); sf_close(r); free(m.d);} printf("\n"); }
 return 0; }
