/* probe 2: C05/C06/C07 style checks on every writable format */
#include "memvio.h"
#include <unistd.h>

static int nfmt; static SF_INFO fmts[400]; static char names[400][96];
static void enumerate(void){
  int nmaj,nsub; sf_command(NULL,SFC_GET_FORMAT_MAJOR_COUNT,&nmaj,sizeof nmaj); sf_command(NULL,SFC_GET_FORMAT_SUBTYPE_COUNT,&nsub,sizeof nsub);
  for(int a=0;a<nmaj;a++){ SF_FORMAT_INFO mi; mi.format=a; sf_command(NULL,SFC_GET_FORMAT_MAJOR,&mi,sizeof mi);
    for(int b=0;b<nsub;b++){ SF_FORMAT_INFO si; si.format=b; sf_command(NULL,SFC_GET_FORMAT_SUBTYPE,&si,sizeof si);
      for(int ch=1;ch<=2;ch++){ SF_INFO info={0}; info.format=mi.format|si.format; info.channels=ch; info.samplerate=8000;
        if(!sf_format_check(&info)) continue; if(mi.format==SF_FORMAT_SD2) continue;
        fmts[nfmt]=info; snprintf(names[nfmt],96,"%.30s/%.30s/ch%d",mi.name,si.name,ch); nfmt++; }}}
}
static SNDFILE* openr(MEMF*m,SF_INFO*tmpl,SF_INFO*ri){ memset(ri,0,sizeof*ri); if((tmpl->format&SF_FORMAT_TYPEMASK)==SF_FORMAT_RAW)*ri=*tmpl; m->pos=0; return sf_open_virtual(&MVIO,SFM_READ,ri,m); }

/* write N frames of int data using partition sizes from rng seed; returns memfile */
static int write_part(SF_INFO*info,const int*data,int N,uint64_t seed,int mode,MEMF*m){
  SF_INFO wi=*info; memset(m,0,sizeof*m); SNDFILE*s=sf_open_virtual(&MVIO,SFM_WRITE,&wi,m); if(!s) return -1;
  int ch=info->channels; int done=0; uint64_t sv=rng_s; rng_s=seed|1;
  while(done<N){ int k; if(mode==0) k=N; else { k=1+rnd()%(mode==1?7:3000); } if(k>N-done)k=N-done;
    sf_count_t w; if(rnd()&1) w=sf_writef_int(s,data+done*ch,k); else { w=sf_write_int(s,data+done*ch,(sf_count_t)k*ch); if(w%ch) printf("[w%%ch]"); w/=ch; }
    if(w!=k){ printf("[w=%ld k=%d]",(long)w,k); if(w<=0)break; } done+=k; }
  rng_s=sv; sf_close(s); return 0; }

int main(int argc,char**argv){
  enumerate(); int only=-1; if(argc>1) only=atoi(argv[1]);
  for(int f=0;f<nfmt;f++){ if(only>=0&&f!=only) continue; SF_INFO info=fmts[f]; int ch=info.channels; int N=3001;
    printf("%3d %-60s:",f,names[f]); fflush(stdout);
    int *data=malloc(sizeof(int)*N*ch); for(int i=0;i<N*ch;i++) data[i]=(int)((rnd()&0xffffffff)) / 4 * ((i/300)%3==0?1:0) + (int)(1e9*__builtin_sin(i*0.01));
    /* C07: partition independence */
    MEMF a,b,c; if(write_part(&info,data,N,1,0,&a)){ printf(" openfail\n"); continue; }
    write_part(&info,data,N,1234567,1,&b); write_part(&info,data,N,7654321,2,&c);
    if(a.len!=b.len||memcmp(a.d,b.d,a.len)) { sf_count_t i=0; while(i<a.len&&i<b.len&&a.d[i]==b.d[i])i++; printf(" C07:small-part-differs(len %ld vs %ld, first diff @%ld)",(long)a.len,(long)b.len,(long)i); }
    if(a.len!=c.len||memcmp(a.d,c.d,a.len)) { sf_count_t i=0; while(i<a.len&&i<c.len&&a.d[i]==c.d[i])i++; printf(" C07:big-part-differs(len %ld vs %ld, first diff @%ld)",(long)a.len,(long)c.len,(long)i); }
    /* reference sequential read */
    SF_INFO ri; SNDFILE*r=openr(&a,&info,&ri); if(!r){ printf(" reopenfail %s\n",sf_strerror(NULL)); continue; }
    sf_count_t F=ri.frames; if(F<0||F>100000){ printf(" F=%ld?\n",(long)F); sf_close(r); continue; }
    int *ref=calloc(sizeof(int),(F+10)*ch); sf_count_t got=sf_readf_int(r,ref,F+5); if(got!=F) printf(" seqread got %ld F %ld",(long)got,(long)F);
    sf_count_t pos=sf_seek(r,0,SEEK_CUR); if(pos!=got) printf(" pos-after-read %ld!=%ld",(long)pos,(long)got);
    { int z[8]={1,1,1,1,1,1,1,1}; sf_count_t g2=sf_readf_int(r,z,8/ch); int nz=0; for(int i=0;i<8/ch*ch;i++) nz|=z[i]; if(g2!=0||nz||sf_error(r)) printf(" EOF-read: ret %ld nz %d err %d",(long)g2,nz,sf_error(r)); }
    sf_close(r);
    /* C06a: partitioned reads w/ guard (C05) */
    for(int pass=0;pass<3;pass++){ r=openr(&a,&info,&ri); sf_count_t p=0; int bad=0;
      while(p<got && !bad){ int k=1+rnd()%(pass==0?5:pass==1?300:5000); int *buf=malloc(sizeof(int)*(k*ch)); /* exact-size => ASan guards */
        sf_count_t g; if(rnd()&1) g=sf_readf_int(r,buf,k); else { g=sf_read_int(r,buf,(sf_count_t)k*ch); g/=ch; }
        sf_count_t exp= (got-p<k)?got-p:k; if(g!=exp){ printf(" C05:partread@%ld k=%d got %ld exp %ld",(long)p,k,(long)g,(long)exp); bad=1; }
        else if(memcmp(buf,ref+p*ch,sizeof(int)*g*ch)){ int i=0; while(buf[i]==ref[p*ch+i])i++; printf(" C06:partread-data-differs@frame %ld(+%d) k=%d",(long)p,i/ch,k); bad=1; }
        else { for(int i=g*ch;i<k*ch;i++) if(buf[i]){ printf(" C05:tail-not-zero"); bad=1; break; } }
        p+=g; sf_count_t q=sf_seek(r,0,SEEK_CUR); if(q!=p&&!bad){ printf(" C05:pos %ld != %ld",(long)q,(long)p); bad=1; }
        free(buf); if(g==0)break; }
      sf_close(r); }
    /* C06b: seeks */
    if(ri.seekable){ r=openr(&a,&info,&ri); int bad=0;
      for(int it=0;it<400&&!bad;it++){ sf_count_t t; int wh=rnd()%3; sf_count_t cur=sf_seek(r,0,SEEK_CUR);
        switch(rnd()%6){case 0:t=0;break;case 1:t=got;break;case 2:t=got-1;break;case 3:t=(rnd()%(got+1));break;case 4: t=(rnd()%(got/64+1))*64; break; default:t=(rnd()%(got+1));}
        sf_count_t off= wh==0?t: wh==1? t-cur : t-got; sf_count_t rr=sf_seek(r,off,wh==0?SEEK_SET:wh==1?SEEK_CUR:SEEK_END);
        if(rr!=t){ printf(" C06:seek(%ld,wh%d) from %ld ->%ld want %ld err=%d",(long)off,wh,(long)cur,(long)rr,(long)t,sf_error(r)); bad=1; break; }
        int k=1+rnd()%200; int *buf=malloc(sizeof(int)*k*ch); sf_count_t g=sf_readf_int(r,buf,k); sf_count_t exp=(got-t<k)?got-t:k;
        if(g!=exp){ printf(" C06:read-after-seek t=%ld k=%d got %ld exp %ld",(long)t,k,(long)g,(long)exp); bad=1; }
        else if(memcmp(buf,ref+t*ch,sizeof(int)*g*ch)){ int i=0; while(buf[i]==ref[t*ch+i])i++; printf(" C06:data-after-seek t=%ld differs at +%d (k=%d)",(long)t,i/ch,k); bad=1; }
        free(buf); }
      sf_close(r); } else printf(" notseekable");
    free(ref); free(data); free(a.d); free(b.d); free(c.d); printf("\n"); }
  return 0; }
