/* probe 3: dumb mutation fuzz of valid files of each format; fork per batch */
#include "memvio.h"
#include <unistd.h>
#include <sys/wait.h>
#include <signal.h>
#include <time.h>

static int nfmt; static SF_INFO fmts[400]; static char names[400][96];
static void enumerate(void){
  int nmaj,nsub; sf_command(NULL,SFC_GET_FORMAT_MAJOR_COUNT,&nmaj,sizeof nmaj); sf_command(NULL,SFC_GET_FORMAT_SUBTYPE_COUNT,&nsub,sizeof nsub);
  for(int a=0;a<nmaj;a++){ SF_FORMAT_INFO mi; mi.format=a; sf_command(NULL,SFC_GET_FORMAT_MAJOR,&mi,sizeof mi);
    for(int b=0;b<nsub;b++){ SF_FORMAT_INFO si; si.format=b; sf_command(NULL,SFC_GET_FORMAT_SUBTYPE,&si,sizeof si);
      for(int ch=1;ch<=2;ch++){ SF_INFO info={0}; info.format=mi.format|si.format; info.channels=ch; info.samplerate=8000;
        if(!sf_format_check(&info)) continue; if(mi.format==SF_FORMAT_SD2||mi.format==SF_FORMAT_RAW) continue;
        fmts[nfmt]=info; snprintf(names[nfmt],96,"%.30s/%.30s/ch%d",mi.name,si.name,ch); nfmt++; }}}
}
static void mkfile(SF_INFO*info,MEMF*m,int N){ SF_INFO wi=*info; memset(m,0,sizeof*m); SNDFILE*s=sf_open_virtual(&MVIO,SFM_WRITE,&wi,m); if(!s) return;
  sf_set_string(s,SF_STR_TITLE,"A title"); sf_set_string(s,SF_STR_COMMENT,"comment here");
  short*d=malloc(2*N*info->channels); for(int i=0;i<N*info->channels;i++) d[i]=(short)(10000*__builtin_sin(i*.05)); sf_writef_short(s,d,N); free(d); sf_close(s); }

static void exercise(MEMF*m){ SF_INFO ri={0}; m->pos=0; m->ncalls=0; SNDFILE*r=sf_open_virtual(&MVIO,SFM_READ,&ri,m); if(!r) return;
  if(ri.channels<1||ri.channels>1024||ri.samplerate<1||ri.frames<0||ri.sections<1){ printf("INSANE ch=%d sr=%d fr=%ld sec=%d\n",ri.channels,ri.samplerate,(long)ri.frames,ri.sections); fflush(stdout);}
  int ch=ri.channels; int k=64;
  short*sb=malloc(2*k*ch); int*ib=malloc(4*k*ch); float*fb=malloc(4*k*ch); double*db=malloc(8*k*ch);
  for(int it=0;it<6;it++){ sf_readf_short(r,sb,k); sf_readf_int(r,ib,k-1); sf_readf_float(r,fb,1+it); sf_readf_double(r,db,k);
    if(ri.seekable){ sf_seek(r,(sf_count_t)(rnd()%((ri.frames>0&&ri.frames<1000000)?ri.frames+1:1000)),SEEK_SET); } }
  if(ri.seekable){ sf_seek(r,-1,SEEK_END); sf_readf_int(r,ib,k); sf_seek(r,0,SEEK_SET); }
  for(int t=SF_STR_FIRST;t<=SF_STR_LAST;t++) sf_get_string(r,t);
  SF_CHUNK_ITERATOR*it=sf_get_chunk_iterator(r,NULL); int nc=0; while(it&&nc<300){ SF_CHUNK_INFO ci; memset(&ci,0,sizeof ci); if(sf_get_chunk_size(it,&ci)==0&&ci.datalen<100000){ ci.data=malloc(ci.datalen+1); sf_get_chunk_data(it,&ci); free(ci.data);} it=sf_next_chunk_iterator(it); nc++; }
  double mx; sf_command(r,SFC_CALC_SIGNAL_MAX,&mx,sizeof mx);
  SF_BROADCAST_INFO bi; sf_command(r,SFC_GET_BROADCAST_INFO,&bi,sizeof bi); SF_INSTRUMENT ins; sf_command(r,SFC_GET_INSTRUMENT,&ins,sizeof ins); SF_CUES cu; sf_command(r,SFC_GET_CUE,&cu,sizeof cu);
  free(sb);free(ib);free(fb);free(db); sf_close(r); }

int main(int argc,char**argv){ enumerate(); uint64_t seed=argc>1?strtoull(argv[1],0,0):1; int per=argc>2?atoi(argv[2]):300; int onlyf=argc>3?atoi(argv[3]):-1;
  for(int f=0;f<nfmt;f++){ if(onlyf>=0&&f!=onlyf)continue; MEMF base; mkfile(&fmts[f],&base,300); if(!base.d){continue;}
    int start=0; int crashes=0, hangs=0;
    while(start<per){ fflush(stdout); pid_t p=fork(); if(p==0){ alarm(20);
        for(int c=start;c<per;c++){ rng_s=(seed*1000003+f)*7919+c*2654435761ULL+1; MEMF m=base; m.d=malloc(base.len+64); memcpy(m.d,base.d,base.len); m.cap=base.len+64;
          int nm=1+rnd()%4; for(int j=0;j<nm;j++){ sf_count_t pos= (rnd()%3)? rnd()%(base.len<200?base.len:200) : rnd()%base.len; int kind=rnd()%5;
             if(kind==0) m.d[pos]=rnd(); else if(kind==1) m.d[pos]^=1<<(rnd()%8); else if(kind==2&&pos+4<=m.len){ uint32_t v= (rnd()%4==0)?0xffffffffu: (rnd()%3==0)?0x7fffffff: (rnd()%2)?0:rnd()%70000; memcpy(m.d+pos,&v,4);} else if(kind==3&&pos+4<=m.len){ uint32_t v; memcpy(&v,m.d+pos,4); v=__builtin_bswap32(__builtin_bswap32(v)+ (rnd()%5)-2); memcpy(m.d+pos,&v,4);} else if(kind==4) { m.len= pos>12?pos:12; } }
          { FILE*fp=fopen("/tmp/probe/cur.case","w"); fprintf(fp,"%d %d\n",f,c); fclose(fp); }
          exercise(&m); free(m.d); }
        _exit(0); }
      int st; waitpid(p,&st,0); if(WIFEXITED(st)&&WEXITSTATUS(st)==0) break;
      int ff,cc; FILE*fp=fopen("/tmp/probe/cur.case","r"); fscanf(fp,"%d %d",&ff,&cc); fclose(fp);
      if(WIFSIGNALED(st)&&WTERMSIG(st)==SIGALRM){ hangs++; printf("HANG fmt %d (%s) case %d\n",f,names[f],cc);} else { crashes++; printf("CRASH fmt %d (%s) case %d status %x\n",f,names[f],cc,st);} start=cc+1; }
    free(base.d); }
  return 0; }
