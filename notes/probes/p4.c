#include "memvio.h"
int main(int argc,char**argv){ int fmtsel=argc>1?atoi(argv[1]):0; int n=argc>2?atoi(argv[2]):40; int plen=argc>3?atoi(argv[3]):10; int late=argc>4?atoi(argv[4]):0;
 int F[]={SF_FORMAT_WAV|SF_FORMAT_PCM_16,SF_FORMAT_AIFF|SF_FORMAT_PCM_16,SF_FORMAT_CAF|SF_FORMAT_PCM_16,SF_FORMAT_RF64|SF_FORMAT_PCM_16,SF_FORMAT_WAVEX|SF_FORMAT_PCM_16,SF_FORMAT_W64|SF_FORMAT_PCM_16};
 SF_INFO wi={0}; wi.format=F[fmtsel]; wi.channels=1; wi.samplerate=8000; MEMF m={0}; SNDFILE*s=sf_open_virtual(&MVIO,SFM_WRITE,&wi,&m); if(!s){puts(sf_strerror(NULL));return 1;}
 short d[100]; for(int i=0;i<100;i++)d[i]=i*100;
 if(late) sf_write_short(s,d,100);
 for(int i=0;i<n;i++){ SF_CHUNK_INFO ci; memset(&ci,0,sizeof ci); snprintf(ci.id,sizeof ci.id,"c%03d",i); ci.id_size=4; ci.datalen=plen+(i%3); ci.data=malloc(ci.datalen+1); memset(ci.data,'a'+i%26,ci.datalen); int e=sf_set_chunk(s,&ci); if(e) printf("set %d -> %d %s\n",i,e,sf_error_number(e)); free(ci.data);} 
 if(!late) sf_write_short(s,d,100);
 printf("err after write %d\n",sf_error(s)); int ce=sf_close(s); printf("close %d len %ld\n",ce,(long)m.len);
 SF_INFO ri={0}; m.pos=0; SNDFILE*r=sf_open_virtual(&MVIO,SFM_READ,&ri,&m); if(!r){ printf("reopen fail %s\n",sf_strerror(NULL)); char log[2048]; sf_command(NULL,SFC_GET_LOG_INFO,log,sizeof log); puts(log); return 1;}
 printf("frames %ld\n",(long)ri.frames); short rd[100]; sf_read_short(r,rd,100); printf("audio %s\n",memcmp(rd,d,200)?"DIFF":"same");
 SF_CHUNK_ITERATOR*it=sf_get_chunk_iterator(r,NULL); int k=0; while(it){ SF_CHUNK_INFO ci; memset(&ci,0,sizeof ci); sf_get_chunk_size(it,&ci); if(k<3||k>n) printf("chunk %d id '%.4s' idsz %u len %u\n",k,ci.id,ci.id_size,ci.datalen); it=sf_next_chunk_iterator(it); k++; }
 printf("total iterated %d\n",k); sf_close(r); return 0; }
