#include "memvio.h"
#include <unistd.h>
#include <sys/wait.h>
static int cmds[]={0x1000,0x1001,0x1002,0x1010,0x1011,0x1012,0x1013,0x1014,0x1015,0x1020,0x1021,0x1028,0x1030,0x1031,0x1032,0x1033,0x1040,0x1041,0x1042,0x1043,0x1044,0x1045,0x1050,0x1051,0x1060,0x1061,0x1070,0x1071,0x1080,0x1090,0x10A0,0x10A1,0x10A2,0x10A3,0x10B0,0x10C0,0x10C1,0x10CD,0x10CE,0x10CF,0x10D0,0x10D1,0x10E0,0x10F0,0x10F1,0x1100,0x1101,0x1110,0x1200,0x1201,0x1210,0x1300,0x1301,0x1302,0x1303,0x1304,0x1305,0x1306,0x1400,0x1401,0x1500,0x1501,0x6001,0x2000,0x2010,0,1,-1,0x7fffffff,0x1234,0x1003};
static SNDFILE* mk(int state,MEMF*m,int fmt){ SF_INFO i={0}; i.format=fmt; i.channels=2; i.samplerate=8000; memset(m,0,sizeof*m);
  if(state==0) return NULL;
  SNDFILE*s=sf_open_virtual(&MVIO,SFM_WRITE,&i,m); short d[200]; for(int k=0;k<200;k++)d[k]=k*50; 
  if(state==1) return s; /* write, nothing written */
  sf_write_short(s,d,200); if(state==2) return s; /* write w/ data */
  sf_close(s); m->pos=0; SF_INFO r={0}; if(state==3) return sf_open_virtual(&MVIO,SFM_READ,&r,m);
  return sf_open_virtual(&MVIO,SFM_RDWR,&r,m); }
int main(int argc,char**argv){ int fmt=argc>1?strtol(argv[1],0,0):(SF_FORMAT_WAV|SF_FORMAT_PCM_16);
  int ncmd=sizeof cmds/sizeof*cmds; int bad=0;
  for(int st=0;st<5;st++) for(int c=0;c<ncmd;c++){ int sizes[64]; int ns=0; for(int z=0;z<=40;z++)sizes[ns++]=z; int extra[]={sizeof(SF_INFO),sizeof(SF_FORMAT_INFO),sizeof(SF_INSTRUMENT),sizeof(SF_LOOP_INFO),sizeof(SF_BROADCAST_INFO),sizeof(SF_CART_INFO),sizeof(SF_CUES),sizeof(SF_DITHER_INFO),sizeof(SF_EMBED_FILE_INFO),4+sizeof(SF_CUE_POINT),4+2*sizeof(SF_CUE_POINT),100000};
    for(unsigned e=0;e<sizeof extra/sizeof*extra;e++){ for(int d=-2;d<=8;d++) if(ns<64*0+ (int)(sizeof sizes/sizeof*sizes)) {} }
    for(unsigned e=0;e<sizeof extra/sizeof*extra;e++) for(int d=-1;d<=1;d++){ int sz=extra[e]+d; 
      for(int nul=0;nul<2;nul++){ fflush(stdout); pid_t p=fork(); if(p==0){ alarm(10); MEMF m; SNDFILE*s=mk(st,&m,fmt); if(st&&!s)_exit(0); void*data=nul?NULL:calloc(1,sz?sz:1); if(!nul&&sz==0){ free(data); data=malloc(0);} 
            if(data&&sz>=4) { /* plausible contents */ memset(data,0,sz); ((int*)data)[0]=3; }
            int r=sf_command(s,cmds[c],data,sz); (void)r; if(s) sf_close(s); _exit(0);} int stt; waitpid(p,&stt,0); if(!(WIFEXITED(stt)&&WEXITSTATUS(stt)==0)){ printf("FAIL state %d cmd 0x%x size %d null %d status %x\n",st,cmds[c],sz,nul,stt); bad++; } } }
    for(int z=0;z<ns;z++) for(int nul=0;nul<2;nul++){ int sz=sizes[z]; fflush(stdout); pid_t p=fork(); if(p==0){ alarm(10); MEMF m; SNDFILE*s=mk(st,&m,fmt); if(st&&!s)_exit(0); void*data=nul?NULL:malloc(sz); if(data) memset(data,0,sz); if(data&&sz>=4)((int*)data)[0]=3; sf_command(s,cmds[c],data,sz); if(s)sf_close(s); _exit(0);} int stt; waitpid(p,&stt,0); if(!(WIFEXITED(stt)&&WEXITSTATUS(stt)==0)){ printf("FAIL state %d cmd 0x%x size %d null %d status %x\n",st,cmds[c],sz,nul,stt); bad++; } }
  }
  printf("bad=%d\n",bad); return 0; }
