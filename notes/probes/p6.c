/* probe 6: leak accounting across failing/successful opens, truncated at every length (step), + fd count */
#include "memvio.h"
#include <dirent.h>
extern size_t __sanitizer_get_current_allocated_bytes(void);
#include <sanitizer/lsan_interface.h>
static int nfmt; static SF_INFO fmts[400]; static char names[400][96];
static void enumerate(void){ int nmaj,nsub; sf_command(NULL,SFC_GET_FORMAT_MAJOR_COUNT,&nmaj,sizeof nmaj); sf_command(NULL,SFC_GET_FORMAT_SUBTYPE_COUNT,&nsub,sizeof nsub);
  for(int a=0;a<nmaj;a++){ SF_FORMAT_INFO mi; mi.format=a; sf_command(NULL,SFC_GET_FORMAT_MAJOR,&mi,sizeof mi);
    for(int b=0;b<nsub;b++){ SF_FORMAT_INFO si; si.format=b; sf_command(NULL,SFC_GET_FORMAT_SUBTYPE,&si,sizeof si);
      SF_INFO info={0}; info.format=mi.format|si.format; info.channels=1; info.samplerate=8000; if(!sf_format_check(&info)) continue; if(mi.format==SF_FORMAT_SD2||mi.format==SF_FORMAT_RAW) continue;
        fmts[nfmt]=info; snprintf(names[nfmt],96,"%.30s/%.30s",mi.name,si.name); nfmt++; }}}
static int nfds(void){ int n=0; DIR*d=opendir("/proc/self/fd"); while(readdir(d))n++; closedir(d); return n; }
int main(void){ enumerate(); long cases=0,leaks=0;
  for(int f=0;f<nfmt;f++){ MEMF base={0}; SF_INFO wi=fmts[f]; SNDFILE*s=sf_open_virtual(&MVIO,SFM_WRITE,&wi,&base); if(!s)continue; sf_set_string(s,SF_STR_TITLE,"tt"); short d[700]; for(int i=0;i<700;i++)d[i]=i*40; sf_write_short(s,d,700); sf_close(s);
    int fds0=nfds();
    for(sf_count_t L=0; L<=base.len; L+= (L<300?1:97)){ MEMF m=base; m.len=L; m.pos=0; size_t a0=__sanitizer_get_current_allocated_bytes(); SF_INFO ri={0}; SNDFILE*r=sf_open_virtual(&MVIO,SFM_READ,&ri,&m); if(r){ int buf[64]; sf_read_int(r,buf,64); sf_get_chunk_iterator(r,NULL); sf_close(r);} size_t a1=__sanitizer_get_current_allocated_bytes(); cases++;
      if(a1!=a0){ leaks++; printf("LEAK %s trunc %ld: %ld bytes (open %s)\n",names[f],(long)L,(long)(a1-a0), r?"ok":"fail"); __lsan_do_recoverable_leak_check(); } }
    if(nfds()!=fds0) printf("FD LEAK %s\n",names[f]);
    free(base.d); }
  printf("cases %ld leaks %ld\n",cases,leaks); return 0; }
