/* probe 7: I/O fault injection at every callback index */
#include "memvio.h"
#include <unistd.h>
#include <sys/wait.h>
#include <signal.h>
static int nfmt; static SF_INFO fmts[400]; static char names[400][96];
static void enumerate(void){ int nmaj,nsub; sf_command(NULL,SFC_GET_FORMAT_MAJOR_COUNT,&nmaj,sizeof nmaj); sf_command(NULL,SFC_GET_FORMAT_SUBTYPE_COUNT,&nsub,sizeof nsub);
  for(int a=0;a<nmaj;a++){ SF_FORMAT_INFO mi; mi.format=a; sf_command(NULL,SFC_GET_FORMAT_MAJOR,&mi,sizeof mi);
    for(int b=0;b<nsub;b++){ SF_FORMAT_INFO si; si.format=b; sf_command(NULL,SFC_GET_FORMAT_SUBTYPE,&si,sizeof si);
      SF_INFO info={0}; info.format=mi.format|si.format; info.channels=1; info.samplerate=8000; if(!sf_format_check(&info)) continue; if(mi.format==SF_FORMAT_SD2||mi.format==SF_FORMAT_RAW) continue;
        fmts[nfmt]=info; snprintf(names[nfmt],96,"%.30s/%.30s",mi.name,si.name); nfmt++; }}}
typedef struct { MEMF m; long n, fault_at; int kind; int persistent; long fired; } FV;
static int faulty(FV*f){ f->n++; if(f->fault_at<0) return 0; if(f->persistent? f->n>=f->fault_at : f->n==f->fault_at){ f->fired++; return 1;} return 0; }
static sf_count_t f_len(void*u){ FV*f=u; if(faulty(f)){ if(f->kind==3) return f->m.len+1000; if(f->kind==4) return f->m.len/2; } return f->m.len; }
static sf_count_t f_seek(sf_count_t o,int w,void*u){ FV*f=u; if(faulty(f)&&f->kind==2) return -1; return mv_seek(o,w,&f->m); }
static sf_count_t f_read(void*p,sf_count_t c,void*u){ FV*f=u; if(faulty(f)){ if(f->kind==0) return 0; if(f->kind==1) return mv_read(p,c>1?c/2:0,&f->m);} return mv_read(p,c,&f->m); }
static sf_count_t f_write(const void*p,sf_count_t c,void*u){ FV*f=u; if(faulty(f)){ if(f->kind==0) return 0; if(f->kind==1) return mv_write(p,c>1?c/2:0,&f->m);} return mv_write(p,c,&f->m); }
static sf_count_t f_tell(void*u){ FV*f=u; if(faulty(f)&&f->kind==5) return f->m.pos+7; return f->m.pos; }
static SF_VIRTUAL_IO FVIO={f_len,f_seek,f_read,f_write,f_tell};
static long wl_write(SF_INFO*info,FV*fv){ SF_INFO wi=*info; SNDFILE*s=sf_open_virtual(&FVIO,SFM_WRITE,&wi,fv); if(!s) return fv->n; short d[1500]; for(int i=0;i<1500;i++)d[i]=(short)(i*37); 
  for(int k=0;k<3;k++){ sf_count_t w=sf_write_short(s,d+k*500,500); if(w<0||w>500){ printf("BADRET write %ld\n",(long)w); } } sf_command(s,SFC_UPDATE_HEADER_NOW,NULL,0); sf_close(s); return fv->n; }
static long wl_read(FV*fv){ SF_INFO ri={0}; fv->m.pos=0; SNDFILE*r=sf_open_virtual(&FVIO,SFM_READ,&ri,fv); if(!r) return fv->n; int b[300]; 
  for(int k=0;k<4;k++){ sf_count_t g=sf_read_int(r,b,300); if(g<0||g>300) printf("BADRET read %ld\n",(long)g);} if(ri.seekable){ sf_seek(r,100,SEEK_SET); sf_read_int(r,b,300); sf_seek(r,-50,SEEK_END); sf_read_int(r,b,300);} double mx; sf_command(r,SFC_CALC_SIGNAL_MAX,&mx,sizeof mx); sf_close(r); return fv->n; }
int main(int argc,char**argv){ enumerate(); int onlyf=argc>1?atoi(argv[1]):-1; long total=0,bad=0;
  for(int f=0;f<nfmt;f++){ if(onlyf>=0&&f!=onlyf)continue; FV g; memset(&g,0,sizeof g); g.fault_at=-1; long Kw=wl_write(&fmts[f],&g); MEMF good=g.m; g.n=0; long Kr=wl_read(&g); 
    for(int wl=0;wl<2;wl++){ long K= wl?Kr:Kw; for(int kind=0;kind<6;kind++) for(int pers=0;pers<2;pers++){ fflush(stdout); pid_t p=fork(); if(p==0){ for(long i=1;i<=K;i++){ alarm(5); FV fv; memset(&fv,0,sizeof fv); fv.fault_at=i; fv.kind=kind; fv.persistent=pers; if(wl){ fv.m=good; fv.m.d=malloc(good.len+16); memcpy(fv.m.d,good.d,good.len); fv.m.cap=good.len+16; }
             { FILE*fp=fopen("/tmp/probe/cur7","w"); fprintf(fp,"%ld\n",i); fclose(fp);} if(wl) wl_read(&fv); else wl_write(&fmts[f],&fv); free(fv.m.d);} _exit(0);} int st; waitpid(p,&st,0); total+=K; if(!(WIFEXITED(st)&&WEXITSTATUS(st)==0)){ long i=0; FILE*fp=fopen("/tmp/probe/cur7","r"); fscanf(fp,"%ld",&i); fclose(fp); bad++; printf("%s fmt %d %s wl %d kind %d pers %d at i=%ld/%ld\n",(WIFSIGNALED(st)&&WTERMSIG(st)==SIGALRM)?"HANG":"CRASH",f,names[f],wl,kind,pers,i,K);} } }
    free(good.d); }
  printf("total %ld bad %ld\n",total,bad); return 0; }
