/* probe 8: read each format through a pipe (fd route) and via path; compare */
#include "memvio.h"
#include <unistd.h>
#include <fcntl.h>
#include <sys/wait.h>
#include <signal.h>
static int nfmt; static SF_INFO fmts[400]; static char names[400][96];
static void enumerate(void){ int nmaj,nsub; sf_command(NULL,SFC_GET_FORMAT_MAJOR_COUNT,&nmaj,sizeof nmaj); sf_command(NULL,SFC_GET_FORMAT_SUBTYPE_COUNT,&nsub,sizeof nsub);
  for(int a=0;a<nmaj;a++){ SF_FORMAT_INFO mi; mi.format=a; sf_command(NULL,SFC_GET_FORMAT_MAJOR,&mi,sizeof mi);
    for(int b=0;b<nsub;b++){ SF_FORMAT_INFO si; si.format=b; sf_command(NULL,SFC_GET_FORMAT_SUBTYPE,&si,sizeof si);
      SF_INFO info={0}; info.format=mi.format|si.format; info.channels=1; info.samplerate=8000; if(!sf_format_check(&info)) continue; if(mi.format==SF_FORMAT_SD2||mi.format==SF_FORMAT_RAW) continue;
        fmts[nfmt]=info; snprintf(names[nfmt],96,"%.30s/%.30s",mi.name,si.name); nfmt++; }}}
int main(int argc,char**argv){ enumerate(); int onlyf=argc>1?atoi(argv[1]):-1; signal(SIGPIPE,SIG_IGN);
 for(int f=0;f<nfmt;f++){ if(onlyf>=0&&f!=onlyf)continue; char path[256]; snprintf(path,sizeof path,"/tmp/probe/t8_%d.bin",f); SF_INFO wi=fmts[f]; SNDFILE*s=sf_open(path,SFM_WRITE,&wi); if(!s){printf("%s: open-w fail %s\n",names[f],sf_strerror(NULL));continue;} short d[2000]; for(int i=0;i<2000;i++)d[i]=(short)(i*13); sf_write_short(s,d,2000); sf_close(s);
   SF_INFO ri={0}; SNDFILE*r=sf_open(path,SFM_READ,&ri); if(!r){printf("%s: reopen fail\n",names[f]);continue;} int *ref=calloc(4,ri.frames+10); sf_count_t got=sf_read_int(r,ref,ri.frames+5); sf_close(r);
   fflush(stdout); pid_t p=fork(); if(p==0){ alarm(10); int pp[2]; pipe(pp); pid_t q=fork(); if(q==0){ close(pp[0]); int fd=open(path,O_RDONLY); char buf[777]; ssize_t n; while((n=read(fd,buf,sizeof buf))>0) write(pp[1],buf,n); fflush(stdout);_exit(0);} close(pp[1]);
       SF_INFO pi={0}; SNDFILE*pr=sf_open_fd(pp[0],SFM_READ,&pi,1); if(!pr){ printf("%-50s: pipe open FAIL: %s\n",names[f],sf_strerror(NULL)); fflush(stdout);_exit(0);} int*b=calloc(4,got+10); sf_count_t g=0,k; while(g<got+5&&(k=sf_read_int(pr,b+g,(got+5-g)>300?300:(got+5-g)))>0) g+=k; 
       printf("%-50s: pipe frames=%ld (path %ld) got=%ld (path %ld) data %s seekable=%d\n",names[f],(long)pi.frames,(long)ri.frames,(long)g,(long)got,(g==got&&!memcmp(b,ref,4*g))?"same":"DIFF",pi.seekable); sf_close(pr); fflush(stdout);_exit(0);} int st; waitpid(p,&st,0); if(WIFSIGNALED(st)) printf("%-50s: pipe %s\n",names[f],WTERMSIG(st)==SIGALRM?"HANG":"CRASH"); unlink(path); free(ref);} return 0; }
