/* probe 9: C11 header update snapshots */
#include "memvio.h"
static int nfmt; static SF_INFO fmts[400]; static char names[400][96];
static void enumerate(void){ int nmaj,nsub; sf_command(NULL,SFC_GET_FORMAT_MAJOR_COUNT,&nmaj,sizeof nmaj); sf_command(NULL,SFC_GET_FORMAT_SUBTYPE_COUNT,&nsub,sizeof nsub);
  for(int a=0;a<nmaj;a++){ SF_FORMAT_INFO mi; mi.format=a; sf_command(NULL,SFC_GET_FORMAT_MAJOR,&mi,sizeof mi);
    for(int b=0;b<nsub;b++){ SF_FORMAT_INFO si; si.format=b; sf_command(NULL,SFC_GET_FORMAT_SUBTYPE,&si,sizeof si);
      SF_INFO info={0}; info.format=mi.format|si.format; info.channels=1; info.samplerate=8000; if(!sf_format_check(&info)) continue; if(mi.format==SF_FORMAT_SD2) continue;
        fmts[nfmt]=info; snprintf(names[nfmt],96,"%.30s/%.30s",mi.name,si.name); nfmt++; }}}
int main(int argc,char**argv){ enumerate(); int autoh=argc>1?atoi(argv[1]):0;
 for(int f=0;f<nfmt;f++){ SF_INFO wi=fmts[f]; MEMF m={0}; SNDFILE*s=sf_open_virtual(&MVIO,SFM_WRITE,&wi,&m); if(!s){continue;} if(autoh) sf_command(s,SFC_SET_UPDATE_HEADER_AUTO,NULL,SF_TRUE);
   int ks[]={1,333,667,1000}; int total=0; short d[1000]; printf("%-52s:",names[f]);
   for(int c=0;c<4;c++){ for(int i=0;i<ks[c];i++) d[i]=(short)((total+i)*31); sf_count_t w=sf_write_short(s,d,ks[c]); total+=w; if(!autoh) sf_command(s,SFC_UPDATE_HEADER_NOW,NULL,0);
     MEMF snap=m; snap.d=malloc(m.len+1); memcpy(snap.d,m.d,m.len); snap.pos=0; SF_INFO ri={0}; if((wi.format&SF_FORMAT_TYPEMASK)==SF_FORMAT_RAW) ri=fmts[f]; SNDFILE*r=sf_open_virtual(&MVIO,SFM_READ,&ri,&snap);
     if(!r) printf(" [N=%d openfail]",total); else { short*rb=calloc(2,ri.frames+10); sf_count_t g= ri.frames<1000000? sf_read_short(r,rb,ri.frames+5):-1; int same=1; for(int i=0;i<g&&i<total;i++) if(rb[i]!=(short)(i*31)){same=0;break;} printf(" [N=%d F=%ld got=%ld%s]",total,(long)ri.frames,(long)g, same?"":" data~"); free(rb); sf_close(r);} free(snap.d); }
   sf_close(s); printf("\n"); free(m.d);} return 0; }
