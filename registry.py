"""Per-property configuration of the monitors (read by check.py)."""

COMMON_ASSUME = [
    'libsndfile built from /repo working tree with gcc 12 -O1, AddressSanitizer + UBSan subset, hooks on (-DLIBSNDFILE_VERIF)',
    'x86-64 little-endian host; FLAC/Ogg/Opus/MPEG back ends are not compiled into this build and are not enumerated',
    'only the executions listed under coverage were observed; nothing is claimed about inputs not run',
]

PROPS = {
    'C01': dict(
        runs=[dict(src='c01_roundtrip.c'),
              dict(src='c01_roundtrip.c', variant='vg', tool='memcheck', args_quick=['--stride', '16'], args_thorough=['--stride', '40'])],
        level='exploration',
        rule=('case = (container, encoding, endian option, channels, caller type, N, generator) enumerated from the library\'s own '
              'format lists; write N frames, close, re-open, read with the same type, memcmp. distinct = hash of those parameters; '
              'all cases are non-trivial except N=0 which is still a real open/close/re-open'),
        assumptions=COMMON_ASSUME + ['SD2 (needs a resource-fork path) is exercised by C14 only',
                                     'lossless predicate taken from the property text (vh.h), not from the library'],
        floor={'quick': 1000, 'thorough': 10000},
    ),
    'C04': dict(
        runs=[dict(src='c04_closed_file.c'), dict(src='c04_big_files.c'),
              dict(src='c04_closed_file.c', variant='vg', tool='memcheck', args_quick=['--stride', '20'], args_thorough=['--stride', '40'])],
        level='exploration',
        rule=('case = (container, encoding, endian, channels, sample rate, N, write partition, garbage in SF_INFO.frames at open); write, close, '
              're-open: compare channels/format/byte order/rate (quantised by the container\'s documented unit), N <= F < N+B, read-to-EOF == F, '
              'RIFF/FORM size fields == file size. distinct = hash of the parameters. Second monitor (c04_big_files): the containers with 64-bit or no size fields '
              '(RF64 with and without SFC_RF64_AUTO_DOWNGRADE, W64, CAF, AU, IRCAM, PVF, PAF, NIST) x sample-granular encodings x 1-2 channels grown past 2 GiB and 4 GiB '
              '(and past 2^31 / 2^32 frames for 1-byte mono) through the real write calls into a sparse virtual-I/O store, and every other container (32-bit size fields) past 2 GiB only; frame count, parameters, '
              'the audio around offsets 0 / 2^31 / 2^32 / end, and a start-to-end read are compared'),
        assumptions=COMMON_ASSUME + ['block lengths B and rate-field units are harness tables written from the format documents (vh.h, c04)',
                                     'SD2 covered by C14 (path route) only'],
        floor={'quick': 1000, 'thorough': 10000},
    ),
    'C05': dict(
        runs=[dict(src='c05_rw_contract.c'),
              dict(src='c05_rw_contract.c', variant='vg', tool='memcheck', args_quick=['--stride', '10'], args_thorough=['--stride', '10'])],
        level='exploration',
        rule=('case = (container, encoding, channels, sample type, item/frame variant) x {read, write}; each read case checks ~6 positions x ~16 request '
              'sizes against one sequential reference read, with exact-size canary-filled buffers under ASan and positions from the read-only hook; '
              'write cases check return value, position and frame-count advance for ~13 sizes plus raw I/O. distinct = hash(format, ch, type, variant, position, size)'),
        assumptions=COMMON_ASSUME + ['reference stream = one sequential read of the same file (its own correctness is C01/C06)',
                                     'zero-fill of the tail after a PARTIAL read is recorded (partial_tail_* counters), not judged'],
        floor={'quick': 500, 'thorough': 1000},
    ),
    'C06': dict(
        runs=[dict(src='c06_seek_partition.c'), dict(src='c06_big_files.c'),
              dict(src='c06_seek_partition.c', variant='vg', tool='memcheck', args_quick=['--stride', '12'], args_thorough=['--stride', '24'])],
        level='exploration',
        rule=('case = one walk on one handle of a generated file (container, encoding, channels, walk seed): either a pure partition walk (reads only, '
              'random sizes/types/variants to EOF) or a seek+read walk (400 steps quick / 5000 thorough). Every read is compared with the per-type sequential '
              'reference at the modelled position; every seek must return the target or -1 with an error; SEEK_CUR must equal the modelled position; the four per-type references must agree with each other. '
              'Second monitor (c06_big_files): files grown past 2 GiB / 4 GiB through the real write calls (sparse store, see C04): 400 / 3000 seeks with all six whence forms to positions in and around the '
              'islands of known audio at file offsets 0, 2^31, 2^32 and the end, each followed by a 16-frame read. '
              'distinct = hash(format, ch, walk index, PRNG state)'),
        assumptions=COMMON_ASSUME + ['the sequential reference is one sf_readf call per type on a fresh handle',
                                     'a codec may refuse to seek (-1 with error): then only position coherence is asserted'],
        floor={'quick': 300, 'thorough': 1000},
    ),
    'C08': dict(
        runs=[dict(src='c08_rdwr_model.c'),
              dict(src='c08_rdwr_model.c', variant='vg', tool='memcheck', args_quick=['--stride', '40'], args_thorough=['--stride', '160'])],
        level='exploration',
        rule=('case = a set of SFM_RDWR histories on one (container, sample-granular encoding, channels, route vio|path, start empty|5 frames): '
              'either ALL histories of depth d over the 44-op alphabet {W1,W3,R1,R3, seek x {SET,CUR,END} x {plain,|SFM_READ,|SFM_WRITE} x {0,-1,+2,F}, '
              'truncate, update-header, close+re-open} that begin with a given op (d=3 on 5 representative formats, d=2 on all; thorough d=4), or a '
              'random walk of 40 ops. Each op is checked against an executable sequential model with unique frame ids; positions via the read-only hook; '
              'final file re-opened read-only. distinct = hash(op sequence, format, ch, route, start)'),
        assumptions=COMMON_ASSUME + ['formats that open SFM_RDWR are found by trying; block-packed PAF-24/SDS are outside the property (not sample granular)',
                                     'plain SEEK_CUR while rp != wp: either base is accepted (docs ambiguous); frames in a gap created by writing past the end are unspecified',
                                     'SFC_FILE_TRUNCATE is exercised on the path route only (virtual I/O has no truncate callback)'],
        floor={'quick': 500, 'thorough': 1000},
    ),
    'C13': dict(
        runs=[dict(src='c13_chunks.c'),
              dict(src='c13_chunks.c', variant='vg', tool='memcheck', args_quick=['--stride', '6'], args_thorough=['--stride', '60'])],
        level='exploration',
        rule=('case = (container in WAV/WAVEX/RF64/AIFF/CAF, encoding, channels, chunk count from a list crossing every capacity step 0..200, '
              'id scheme {distinct, duplicates, 1-4 chars, reserved ids, random}, payload-length scheme {0,1,2,3,4,5,7,8,255,256,1023,4095 | random | fixed | '
              'occasional 20-64 KiB}, strings interleaved, optional chunk after audio). set -> write audio -> close -> re-open -> full iteration, '
              'iteration by every id (every visited chunk must carry the queried id, all chunks set under it must be found in order), short-buffer gets, absent id, audio compare. '
              'Thorough: every chunk count 0..220 x 20 repetitions. distinct = hash of those parameters'),
        assumptions=COMMON_ASSUME + ['stored size may exceed the set size by up to 3 zero pad bytes (container alignment)',
                                     'standard chunks of the container that appear during full iteration are skipped, custom chunks must appear in order'],
        floor={'quick': 300, 'thorough': 1000},
    ),
    'C07': dict(
        runs=[dict(src='c07_write_determinism.c', ldflags='-Wl,--wrap=time,--wrap=gettimeofday'),
              dict(src='c07_write_determinism.c', ldflags='-Wl,--wrap=time,--wrap=gettimeofday', variant='vg', tool='memcheck', args_quick=['--stride', '6'], args_thorough=['--stride', '40'])],
        level='exploration',
        rule=('case = (container, encoding, channels, sample type, N, signal, metadata on/off); the file written by ONE call with the clock pinned is '
              'compared byte for byte with 9 variants: 1-frame calls, small odd sizes, B-1/B/B+1, > staging buffer, mixed item/frame sizes, '
              'SFC_UPDATE_HEADER_NOW after every call, auto header update, a forked fresh process, and a different wall clock (PEAK timestamp and MAT5 '
              'date text masked). distinct = hash(format, ch, type, N, job)'),
        assumptions=COMMON_ASSUME + ['time()/gettimeofday() are interposed at link time (--wrap) in the monitor binary; the library objects are unmodified',
                                     'PEAK timestamps are located by the marker outside the audio data region reported by the hook'],
        floor={'quick': 300, 'thorough': 1000},
    ),
    'C09': dict(
        runs=[dict(src='c09_invalid_calls.c', ldflags='-Wl,--wrap=time,--wrap=gettimeofday'),
              dict(src='c09_invalid_calls.c', ldflags='-Wl,--wrap=time,--wrap=gettimeofday', variant='vg', tool='memcheck', args_quick=['--stride', '24'], args_thorough=['--stride', '200'])],
        level='exploration',
        rule=('case = all call sequences of depth 3 (thorough: depth 4 on four formats) from a 41-call alphabet of valid and '
              'invalid calls (wrong mode, misaligned counts in all four sample types, negative/zero counts, bad whence, negative/out-of-range seek with qualifiers, unknown command, NULL data, bad string '
              'type, NULL string, read-only set_string/set_chunk, bad truncate, SFC_SET_BROADCAST_INFO/CART/INSTRUMENT/CUE/CHANNEL_MAP with invalid sizes or contents) on read / write / rdwr handles of 12 representative formats. '
              'Oracles: failure value, error code and text, state digest (positions, frames, settings, metadata digest, file bytes) unchanged; and the TWIN: each history with a failed call is re-run on a fresh handle without '
              'its failed calls - the remaining calls must return the same values and data and both files must be byte-identical after close. Plus 10 kinds '
              'of failing sf_open* (fd and heap accounting), NULL-handle calls and the sf_error_number table. distinct = hash(format, mode, call sequence)'),
        assumptions=COMMON_ASSUME + ['which calls are invalid, and their failure values, are a harness table written from docs/api.md',
                                     'zero-length reads return before the error state is touched: neither success nor failure is asserted for them'],
        floor={'quick': 200, 'thorough': 500},
    ),
    'C02': dict(
        runs=[dict(src='c02_conversions.c'), dict(src='c02_conversions.c', variant='nosse', shards=8), dict(src='c02_conversions.c', variant='fast', shards=8, thorough_only=True),
              dict(src='c02_conversions.c', variant='vg', tool='memcheck', args_quick=['--stride', '24'], args_thorough=['--stride', '24'])],
        level='exploration',
        rule=('case = (container, encoding in 8/16/24/32-bit PCM, float, double, u-law, A-law, byte order, direction write|read, caller type, settings: '
              'norm on/off, clipping, SCALE_INT_FLOAT_WRITE, SCALE_FLOAT_INT_READ). write: ~65536 values (all shorts; ints; float grid, rounding ties, '
              'powers of two, values approaching +-1, out-of-range under clipping) are written and the stored codes are decoded from the file image by the '
              'monitor and compared with an independent model; read: the data section is overwritten with monitor-chosen codes (all 2^8 / 2^16 codes, '
              'sampled 24/32-bit and fp patterns) and read through the four APIs. Stride 1 for RAW and WAV, 7 for other containers in quick; 1 everywhere in '
              'thorough. Run on the SSE2 (asan) and libm-lrint (nosse) builds; thorough adds -O2. distinct = hash(format, endian, direction, type, settings)'),
        assumptions=COMMON_ASSUME + ['the conversion model (c02_conversions.c, g711ref.h) is written from docs/api.md and ITU-T G.711, not from the library',
                                     'float->int: |code - x*(2^(w-1)-1)| <= 1/2 + 2^-22|.| (float) / 2^-50 (double); ties may go either way; under clipping the in-range band spans the constants 2^(w-1)-1 and 2^(w-1)',
                                     'unclipped out-of-range float input and NaN/Inf are outside the property and only run for memory safety'],
        floor={'quick': 300, 'thorough': 1000},
        timeout={'quick': 3000, 'thorough': 14000},
    ),
    'C03': dict(
        runs=[dict(src='c03_hostile_input.c', ldflags='-Wl,--wrap=read,--wrap=lseek'),
              dict(src='c03_hostile_input.c', ldflags='-Wl,--wrap=read,--wrap=lseek', variant='vg', tool='memcheck', args_quick=['--stride', '80'], args_thorough=['--stride', '120']),
              # the same plain -O1 build WITHOUT any tool, every case: the sanitizer's allocator refuses huge requests (malloc returns NULL), the system allocator
              # on an overcommitting kernel grants them - what the library then does with a 2^40-byte block (memset, read loop) only shows here, as a crash or CPU hang
              dict(src='c03_hostile_input.c', ldflags='-Wl,--wrap=read,--wrap=lseek', variant='vg')],
        level='exploration',
        rule=('case = one input = (corpus file written by the library for a format/channels/metadata level, mutation recipe) or random bytes; 100 inputs per '
              'corpus file quick, 1500 thorough: unmodified, ~40 truncations (dense in the header, 97-byte steps in the data), 1-4 stacked mutations from '
              '{byte, bit, 32-bit hostile value LE/BE, +-delta, 16-bit value, truncate, chunk-size field after a marker, duplicate/delete a chunk, splice from '
              'another format, insert a 17-77 KB skippable chunk, noise run}, random bytes with/without magic. Routes: virtual I/O (5/8), memfd descriptor (2/8), pipe (1/8). After a successful '
              'open a seeded script of reads (4 types, item/frame), seeks (3 whence), strings, chunk iteration + short-buffer gets, metadata and CALC '
              'commands runs on exact-size buffers. Plus two SYSTEMATIC families: every chunk of the header (found by walking the RIFF/IFF/CAF/W64/LIST chunk list) x 20 mutations of its size field / id / truncation point, and every even offset of the first 64 header bytes x 14 hostile 32-bit values. distinct = hash(input bytes, route)'),
        assumptions=COMMON_ASSUME + ['termination: I/O-callback budget 64 x (input bytes + 70000) + 4096 (deterministic), the same budget on read()/lseek() calls for the descriptor and pipe routes (--wrap), a 6 s CPU-time watchdog per input (parsers that spin without I/O) and a 20 s wall watchdog that must fire twice',
                                     'UBSan shift/signed-overflow/alignment checks are off (see DESIGN section 3); the ALAC mShiftBuffer union idiom is filtered',
                                     'inputs are derived from 300-frame files; multi-megabyte inputs are not explored'],
        floor={'quick': 5000, 'thorough': 50000},
        timeout={'quick': 3000, 'thorough': 20000},
    ),
    'C10': dict(
        runs=[dict(src='c10_format_check.c'),
              dict(src='c10_format_check.c', variant='vg', tool='memcheck', args_quick=['--stride', '16'], args_thorough=['--stride', '16'])],
        level='exploration',
        exhaustive=True,
        rule=('the complete grid of the property: every (major, subtype) pair of the library\'s own lists x endian {FILE,LITTLE,BIG,CPU} x channels '
              '{0,1,2,3,8,9,256,257,1024,1025} x samplerate {-1,0,1,8000,44100,2^31-1}; at each point sf_format_check is compared with sf_open (write); every '
              'accepted point is written through the four sample types, closed, re-opened and compared; plus every index (and out-of-range indices) of the '
              'simple/major/subtype enumerations and SFC_GET_FORMAT_INFO. case = one (major, subtype, endian) with its 60 grid points; distinct counts grid points'),
        assumptions=COMMON_ASSUME + ['SD2 points are opened by path in a scratch directory, all others through virtual I/O',
                                     're-open failures at the extreme sample rates 1 and 2^31-1 are keyed separately (rate field limits are C04 findings)'],
        floor={'quick': 2000, 'thorough': 2000},
    ),
    'C16': dict(
        runs=[dict(src='c16_no_leaks.c')],
        level='exploration',
        asan_extra='detect_leaks=1',
        rule=('case = one accounted scenario: (A) valid write/read/rdwr histories on every format x {vio, path} x metadata level {none, all strings, '
              'strings+bext+cart+cues+instrument+channel map+PEAK+25 chunks+dither} x {no I/O, 700 frames} x extra failing calls; (B) the same file truncated at '
              'every header byte (then coarser) opened for read / rdwr; (C) 150 / 1500 structure-aware mutations (the C03 mutators incl. appended chunks) per format opened for read and read/write; (D) single-shot and persistent I/O faults at callbacks '
              '1..40 x 6 kinds while reading, 3 kinds while writing; (C2/C3) the systematic chunk-list and header-field mutations of C03 on two metadata profiles, read and read/write; (E) SD2 data fork with 1500 truncated/mutated resource forks. Before/after each scenario: live '
              'heap bytes, /proc/self/fd, private TMPDIR and scratch listing; a difference must repeat on an immediate re-run. distinct = hash(scenario parameters or input bytes)'),
        assumptions=COMMON_ASSUME + ['heap accounting uses the ASan allocator statistics; the write target is a pre-reserved memory file so the harness itself allocates nothing inside a scenario',
                                     'allocation failure inside the library is not injected'],
        floor={'quick': 5000, 'thorough': 20000},
    ),
    'C15': dict(
        runs=[dict(src='c15_io_faults.c', ldflags='-Wl,--wrap=read,--wrap=write'),
              dict(src='c15_io_faults.c', ldflags='-Wl,--wrap=read,--wrap=write', variant='vg', tool='memcheck', args_quick=['--stride', '8'], args_thorough=['--stride', '16'])],
              # no plain (tool-less) run here: outside ASan and valgrind the live-heap figure comes from mallinfo2, whose arena bookkeeping moves for reasons of its own
        level='fault_enumeration',
        exhaustive=True,
        rule=('case = (format, workload in {write-close, open-read-seek-close, rdwr}, caller sample type, fault kind in {0 bytes, half the bytes, seek fails, '
              'length+1000, length/2, tell+7}, single-shot | persistent); inside a case the fault-free run counts its K virtual-I/O callbacks and the workload is '
              're-run with the fault at EVERY callback 1..K (complete enumeration of fault points for that workload). Quick: one representative per '
              'container and per codec family; thorough: every format. Plus the descriptor route: /dev/full, descriptor closed behind the library, EINTR/EIO '
              'injected in read()/write(). Thorough: mono and stereo, and 6 double faults (a second single-shot fault of a random kind at a later callback) per single-shot fault point. distinct = hash(format, workload, type, fault point, kind, persistence); evidence counts the fault points that actually fired'),
        assumptions=COMMON_ASSUME + ['faults stay inside the SF_VIRTUAL_IO contract (results in [0, asked]; seek returns -1; length/tell answers are wrong but non-negative)',
                                     '"bytes accepted before the failure stay uncorrupted" is not separately asserted on the virtual-I/O route (the harness owns the store and accepted nothing after a persistent fault); it is observed on the descriptor route only through the OS',
                                     'termination = virtual-I/O callback budget (logical clock) plus a wall watchdog that must fire twice'],
        floor={'quick': 1000, 'thorough': 5000},
        timeout={'quick': 3000, 'thorough': 20000},
    ),
    'C11': dict(
        runs=[dict(src='c11_header_update.c'), dict(src='c11_big_files.c'),
              dict(src='c11_header_update.c', variant='vg', tool='memcheck', args_quick=['--stride', '40'], args_thorough=['--stride', '24'])],
        level='fault_enumeration',
        rule=('case = (container with a header, encoding except ALAC, channels, update mode in {SFC_UPDATE_HEADER_NOW after every call, '
              'SFC_SET_UPDATE_HEADER_AUTO, sf_write_raw + auto, sf_write_raw + explicit}, write pattern in {1-7 frames, around one block, > staging buffer, mixed}, '
              'sample type); EVERY call boundary of the run (up to 46) is a crash point: the backing store is copied and parsed by a second handle; parameters, '
              'frame count in [whole blocks written, frames written] and decoded prefix are compared with the finished file, and the finished file with a run '
              'without updates. distinct = hash(format, ch, type, mode, pattern, frames written at the crash point). Second monitor (c11_big_files): the same crash-point '
              'snapshots while RF64 (with and without auto-downgrade), W64, CAF, AU, IRCAM, PVF, PAF, NIST files grow past 2 GiB and 4 GiB through the real write calls '
              '(sparse virtual-I/O store; the containers with 32-bit size fields past 2 GiB only): ~15 crash points inside each of the islands straddling file offsets 2^31 and 2^32, where 32-bit size fields, the RIFF->RF64 '
              'switch and the ds64 chunk come into play'),
        assumptions=COMMON_ASSUME + ['crash = loss of the writer process right after the call returned: the virtual-I/O store is exactly what the library handed to the I/O layer',
                                     'block codecs may report any count between the whole blocks written and the frames written'],
        floor={'quick': 500, 'thorough': 2000},
    ),
    'C12': dict(
        runs=[dict(src='c12_metadata.c'),
              dict(src='c12_metadata.c', variant='vg', tool='memcheck', args_quick=['--stride', '6'], args_thorough=['--stride', '60'])],
        level='exploration',
        rule=('case = (container in WAV, WAVEX, RF64, AIFF, CAF, AU, W64, big-endian WAV; encoding; channels; subset of {strings, bext, cart, cues, instrument, '
              'channel map} set BEFORE audio in shuffled order with random field contents at boundary lengths (strings 1..600 bytes, full-width bext/cart fields, '
              'coding history 0..15000, tag text 0..3999, 0..100 cues, 0..16 loops); optionally a second subset set AFTER audio). After close and re-open every '
              'item of the support matrix is compared field by field after the documented normalisations; audio is compared sample by sample. distinct = hash(parameters, PRNG state)'),
        assumptions=COMMON_ASSUME + ['support matrix and normalisations are harness constants (c12_metadata.c in_matrix / check_meta) written from docs/api.md, docs/command.md and the writers',
                                     'software strings longer than 64 bytes are not judged (undocumented truncation); WAV does not store cue names; AIFF stores cue id, position and name only',
                                     'items outside the matrix or set after audio: only "audio and other items intact" is asserted'],
        floor={'quick': 500, 'thorough': 2000},
    ),
    'C17': dict(
        runs=[dict(src='c17_command_grid.c'),
              dict(src='c17_command_grid.c', variant='vg', tool='memcheck', args_quick=['--stride', '20'], args_thorough=['--stride', '40'])],
        level='exploration',
        exhaustive=True,
        rule=('grid enumerated completely: command id in {0x0FF0..0x1500, 0x2000..0x2200, 0x6000..0x6010, 0, 1, -1, 0x10000, 0x11003, 0x7fffffff} (covers every SFC_* of the '
              'public header, the two test ids and ~1800 undefined ids) x handle in {NULL, read, write-empty, write-with-data, rdwr} x format (4 quick / 12 '
              'thorough: WAV, WAVEX, RF64, AIFF, CAF, RAW with integer and float encodings) x datasize in {0..40, every struct size used by any command +-8, '
              'channels*4/8 +-2, 100000} (ids in the defined ranges; 14 sizes for the others) x data in {NULL, exact-size heap block of zeros, plausible struct with '
              'hostile length fields, 0xFF}. case = (id, handle, format); distinct counts cases'),
        assumptions=COMMON_ASSUME + ['"more than datasize bytes" is decided by AddressSanitizer red zones around exact-size malloc blocks (malloc (0) for datasize 0)',
                                     'query commands = SFC_GET_* and SFC_CALC_* (list in c17_command_grid.c); their purity is a digest over hook state + backing store'],
        floor={'quick': 5000, 'thorough': 20000},
    ),
    'C18': dict(
        runs=[dict(src='c18_peak_signal_max.c'),
              dict(src='c18_peak_signal_max.c', variant='vg', tool='memcheck', args_quick=['--stride', '30'], args_thorough=['--stride', '300'])],
        level='exploration',
        rule=('part A: case = (PEAK container in WAV/WAVEX/AIFF/CAF/RF64, float|double, channels in {1,2,5,8,3}, write type in 4, sequence in {max at first frame, last '
              'frame, at the 2048-item staging boundary, middle, tied maxima, silence}, partition in 6); after re-open SFC_GET_SIGNAL_MAX / MAX_ALL_CHANNELS and the PEAK '
              'chunk parsed by the harness (value and FIRST position per channel) are compared with maxima computed by the harness in the file precision. the whole cross product in both tiers (thorough adds more random lengths). part B: every seekable format x {1,2} channels: the four SFC_CALC_* commands at positions {0, F/2, F} under 4 '
              'normalisation profiles vs maxima from an independent handle; position, norm flags and the next frame read (vs a twin handle without the command) must be unchanged. 8 / 60 repetitions with fresh random data per point. distinct = hash(parameters, PRNG state)'),
        assumptions=COMMON_ASSUME + ['true maxima of lossy codecs are taken from a full sf_readf_double on a second handle (its conversion rules are C02)',
                                     'PEAK chunk layout (WAV/AIFF: version, timestamp, {float32 value, uint32 position} per channel; CAF: edit count, {float32, uint64}) is coded in the harness'],
        floor={'quick': 300, 'thorough': 1000},
    ),
    'C20': dict(
        runs=[dict(src='c20_codec_kernels.c'), dict(src='c20_codec_kernels.c', variant='fast', thorough_only=True),
              dict(src='c20_codec_kernels.c', variant='vg', tool='memcheck', args_quick=['--stride', '24'], args_thorough=['--stride', '48'])],
        level='exploration',
        rule=('(1) G.711 exhaustive: 256 codes x 4 read types and 65536 inputs x 4 write types for mu-law and A-law vs an arithmetic reference written from '
              'ITU-T G.711; (2) IEEE serialisers via SFC_TEST_IEEE_FLOAT_REPLACE, both byte orders: floats - quick 2^24 patterns (every sign/exponent, stride 251 '
              'through the mantissa plus 65536 consecutive patterns at the top of each), thorough ALL 2^32 patterns as 65536 blocks; doubles - sign x every '
              'exponent x 14 boundary + 18 random mantissas (x4 quick, x40 thorough); judged on finite normal values; (3) LE/BE twin files of 65536 values for '
              '16/24/32-bit PCM, float, double; (4) IMA (WAV, W64, AIFF layouts) and MS ADPCM: files with 6 blocks (last one partial in half of the cases) whose block '
              'bytes are overwritten with 6 random/adversarial patterns and extreme header fields, 1-2 channels, every block size the writer uses (256..2048), decoded by '
              'sf_readf_short and compared with reference decoders. case = one block of inputs; distinct = hash(case parameters) (5) G.721 / G.723-24 / G.723-40: 800 / 6000 adversarial code streams (runs of equal-sign codes followed by alternating signs, random codes) decoded and extreme signals encoded per format while a read-only hook in update() observes the state limits of ITU-T G.726 (|a2| <= 0.75, |a1| <= 15/16 - a2, 544 <= yu <= 5120)'),
        assumptions=COMMON_ASSUME + ['float/double entries of the G.711 encoders round to the codec input grid: exact equality on the grid, one grid step of slack off it',
                                     'mu-law has two zero codes: identity of encode(decode(c)) is asserted up to codes that decode to the same value',
                                     'ADPCM conformance is asserted only for blocks whose header fields are inside the definitions (IMA step index <= 88, MS bPredictor <= 6); other blocks are decoded for memory safety only; MS iDelta follows the 16-bit arithmetic of the Microsoft description',
                                     'OKI/VOX ADPCM is excluded by the property'],
        floor={'quick': 300, 'thorough': 10000},
        timeout={'quick': 3000, 'thorough': 25000},
    ),
    'C19': dict(
        runs=[dict(src='c19_isolation.c', ldflags='-Wl,--wrap=time,--wrap=gettimeofday')],
        level='exploration',
        rule=('case = a group of 2..8 scripts (kinds: write, read, rdwr, a handle driven into errors incl. a failing sf_open elsewhere, path write, SD2 path '
              'write+read) on formats drawn from the whole enumeration, 8..24 calls each, merged round-robin or by a seeded random schedule; plus ALL 924 merges of '
              'two 6-call scripts for several pairs. Every script transcript (return values, digests of returned data, sf_error after each call, digest of the final '
              'bytes) is compared call by call with the same script run alone in a fresh process forked from a zygote that never called the library. '
              'distinct = hash(schedule, group size, PRNG state)'),
        assumptions=COMMON_ASSUME + ['single-threaded interleavings only, as the property states',
                                     'clock pinned with --wrap=time/gettimeofday; per-process private TMPDIR; path scripts use the same file name in different directories'],
        floor={'quick': 200, 'thorough': 1000},
    ),
    'C14': dict(
        runs=[dict(src='c14_routes.c', ldflags='-Wl,--wrap=time,--wrap=gettimeofday'),
              dict(src='c14_routes.c', ldflags='-Wl,--wrap=time,--wrap=gettimeofday', variant='vg', tool='memcheck', args_quick=['--stride', '8'], args_thorough=['--stride', '60']),
              dict(src='c14_routes.c', ldflags='-Wl,--wrap=time,--wrap=gettimeofday', variant='vg')],	# plain build, system allocator (see C03)
        level='exploration',
        rule=('case = (format, channels, variant): one generated file (16 variants = subsets of {strings, 52-82 KB JUNK chunk spliced in before the audio, truncated tail, damaged '
              'header byte}) opened through virtual I/O (reference), path, descriptor with close_desc 0 and 1, descriptor positioned at offsets 1/7/4096 inside a '
              'file with leading and trailing junk (WAV, WAVEX, AIFF, AU) and a pre-filled pipe (WAV, AIFF, AU sample-granular): SF_INFO, samples in 4 types, strings '
              'open outcome and six seek probes (SET/END/CUR) compared; fcntl(F_GETFD) and /proc/self/fd before/after for close_desc; 10 kinds of refused sf_open_fd x close_desc 0/1 (the caller keeps its descriptor). Plus per format the same write script through path, '
              'descriptor and virtual I/O (bytes compared; SVX/MPC2K length only) and an embedded write behind existing content. distinct = hash(format, ch, variant, PRNG state)'),
        assumptions=COMMON_ASSUME + ['SD2 is path-only (resource fork) and is exercised by C16/C19',
                                     'pipe comparison covers the samples only: frame counts are unknown on a pipe'],
        floor={'quick': 500, 'thorough': 1500},
    ),
}

NOT_APPLICABLE = {}
