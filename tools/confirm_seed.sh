#!/bin/bash
# confirm_seed.sh <worktree> <seed-subdir> : verify a seeded change independently of the sub-agent:
#  clean tree: demo exits 0; patched tree: builds, ctest 143/143, demo exits non-zero.  Leaves the worktree clean.
set -u
WT=$1; SD=$2; cd "$WT" || exit 2
git checkout -q -- src 2>/dev/null
B=$WT/_cb
[ -f $B/build.ninja ] || cmake -G Ninja -S "$WT" -B $B -DCMAKE_BUILD_TYPE=RelWithDebInfo >/dev/null 2>&1
cmake --build $B >/dev/null 2>&1 || { echo "CONFIRM: clean build failed"; exit 2; }
gcc -O1 -g -I"$WT/include" "$SD/demo.c" $B/libsndfile.a -lm -o $B/demo_clean 2>/dev/null || { echo "CONFIRM: demo does not compile"; exit 2; }
( cd $B && timeout 120 ./demo_clean >/dev/null 2>&1 ); c0=$?
git apply "$SD/patch.diff" || { echo "CONFIRM: patch does not apply"; exit 2; }
cmake --build $B >/dev/null 2>&1 || { echo "CONFIRM: patched build failed"; git checkout -q -- src; exit 2; }
t=$(ctest --test-dir $B -j16 --timeout 900 2>&1 | grep "tests passed")
gcc -O1 -g -I"$WT/include" "$SD/demo.c" $B/libsndfile.a -lm -o $B/demo_patched 2>/dev/null
( cd $B && timeout 120 ./demo_patched >/dev/null 2>&1 ); c1=$?
git checkout -q -- src
echo "CONFIRM: clean-demo-exit=$c0 patched-demo-exit=$c1 ctest: $t"
[ $c0 -eq 0 ] && [ $c1 -ne 0 ] && echo "$t" | grep -q "100% tests passed" && echo "CONFIRM: OK" && exit 0
echo "CONFIRM: REJECTED"; exit 1
