#!/usr/bin/env python3
"""Regenerate sections 10-13 of DESIGN.md from notes/design_tail.tmpl.md + current fix commits, known findings and seeded/*/meta.json."""
import json, glob, os, subprocess
V = '/verif'
rows = []
for d in sorted(glob.glob(V + '/seeded/*')):
    m = json.load(open(d + '/meta.json'))
    rows.append('| `%s` | %s | %s |' % (os.path.basename(d), ', '.join(m.get('detected_by', [])) or 'none', ((m.get('needs_to_manifest', '') or m.get('summary', ''))[:150]).replace('|', '/').replace('\n', ' ')))
log = subprocess.run(['git', '-C', '/repo', 'log', '--reverse', '--format=%h %s'], capture_output=True, text=True).stdout.splitlines()
fixes = ['| `%s` | %s |' % (l.split()[0], ' '.join(l.split()[1:])[5:]) for l in log if ' fix:' in l]
k = json.load(open(V + '/known_findings.json'))['findings']
known = ['| %s | `%s` | %s |' % (f['property'], f['key'].replace('|', '\\|'), f['what'].replace('|', '/')) for f in k if f['status'] == 'known']
t = open(V + '/notes/design_tail.tmpl.md').read()
t = t.replace('{FIXES}', '\n'.join(fixes)).replace('{KNOWN}', '\n'.join(known)).replace('{SEEDS}', '\n'.join(rows))
s = open(V + '/DESIGN.md').read()
i = s.index('\n---------------------------------------------------------------------------------\n\n## 10. As built')
open(V + '/DESIGN.md', 'w').write(s[:i] + t)
print('DESIGN.md sections 10-13 regenerated:', len(fixes), 'fixes,', len(known), 'known,', len(rows), 'seeds')
