#!/bin/bash
# keep_seed.sh <worktree> <a|b> <seed-id> <Cxx>... : confirm a sub-agent's change, run our quick checks against it, file it under seeded/<id>/
WT=$1; X=$2; ID=$3; shift 3
SD=$WT/seed/$X
conf=$(/verif/tools/confirm_seed.sh $WT $SD 2>&1 | tail -2)
echo "$conf"
echo "$conf" | grep -q "CONFIRM: OK" || { echo "not kept"; exit 1; }
res=$(/verif/tools/seedtest.sh $SD/patch.diff "$@" 2>&1)
echo "$res" | grep "^==\|^VIOLATION" | cut -c1-200 | head -12
mkdir -p /verif/seeded/$ID
cp $SD/patch.diff $SD/demo.c /verif/seeded/$ID/
python3 - "$SD/meta.json" "/verif/seeded/$ID/meta.json" "$conf" "$res" "$*" <<'PY'
import json,sys
try: m=json.load(open(sys.argv[1]))
except Exception as e: m={'note':'agent meta.json unreadable: %s'%e}
m['confirmed_by_us']=sys.argv[3]
checks={}
cur=None
for l in sys.argv[4].splitlines():
    if l.startswith('== '):
        cur=l.split()[1].rstrip(':'); checks[cur]={'violations':int(l.split('=')[-1]),'keys':[]}
    elif l.startswith('VIOLATION') and cur:
        if len(checks[cur]['keys'])<5: checks[cur]['keys'].append(l.split('key=')[-1])
m['our_quick_checks']=checks
m['detected_by']=[c for c,v in checks.items() if v['violations']>0]
json.dump(m,open(sys.argv[2],'w'),indent=1)
print('kept; detected_by =',m['detected_by'])
PY
