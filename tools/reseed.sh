#!/bin/bash
# reseed.sh <seed-id> <Cxx>... : re-run our quick checks against an already filed seeded change and update its meta.json
ID=$1; shift
res=$(/verif/tools/seedtest.sh /verif/seeded/$ID/patch.diff "$@" 2>&1)
echo "$res" | grep "^==\|SEEDTEST" | head
python3 - "/verif/seeded/$ID/meta.json" "$res" <<'PY'
import json,sys
m=json.load(open(sys.argv[1]))
checks=m.get('our_quick_checks',{})
cur=None
for l in sys.argv[2].splitlines():
    if l.startswith('== '):
        cur=l.split()[1].rstrip(':'); checks[cur]={'violations':int(l.split('=')[-1]),'keys':[]}
    elif l.startswith('VIOLATION') and cur:
        if len(checks[cur]['keys'])<5: checks[cur]['keys'].append(l.split('key=')[-1])
m['our_quick_checks']=checks
m['detected_by']=[c for c,v in checks.items() if v['violations']>0]
json.dump(m,open(sys.argv[1],'w'),indent=1)
print('detected_by =',m['detected_by'])
PY
