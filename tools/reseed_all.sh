#!/bin/bash
# reseed_all.sh : re-run, for every filed seeded change, the check of its own property plus every check that detected it before,
# against the CURRENT /repo tree; refresh seeded/<id>/meta.json.  /repo is patched and restored for each seed: run nothing else meanwhile.
cd /verif
for d in seeded/*/; do
  id=$(basename $d)
  checks=$(python3 - "$d/meta.json" <<'PY'
import json,sys
m=json.load(open(sys.argv[1]))
c=set(m.get('detected_by',[])); c.add(m.get('property','')) 
print(' '.join(sorted(x for x in c if x.startswith('C'))))
PY
)
  echo "### $id : $checks"
  tools/reseed.sh $id $checks 2>&1 | tail -n +1 | grep "^==\|detected_by\|SEEDTEST"
done
git -C /repo status --short | head -3
