#!/usr/bin/env python3
"""merge /tmp/reseed/results/<id>.json into seeded/<id>/meta.json"""
import json, sys, os, glob
res = sys.argv[1]
lost, kept, na = [], 0, []
for f in sorted(glob.glob(os.path.join(res, '*.json'))):
    sid = os.path.basename(f)[:-5]
    mp = '/verif/seeded/%s/meta.json' % sid
    if not os.path.exists(mp):
        continue
    try:
        r = json.load(open(f))
    except Exception as e:
        print('unreadable result', sid, e); continue
    m = json.load(open(mp))
    if '_patch' in r:
        m['recheck_note'] = 'patch no longer applies to the current tree (a later fix: commit touched the same lines); last recorded result kept'
        na.append(sid)
    else:
        checks = m.get('our_quick_checks', {})
        for c, v in r.items():
            checks[c] = {'violations': v['violations'], 'keys': v['keys']}
            if v.get('inconclusive'):
                checks[c]['inconclusive'] = v['inconclusive']
        m['our_quick_checks'] = checks
        before = m.get('detected_by', [])
        m['detected_by'] = [c for c, v in checks.items() if v['violations'] > 0]
        m.pop('recheck_note', None)
        if before and not m['detected_by']:
            lost.append(sid)
        kept += 1
    json.dump(m, open(mp, 'w'), indent=1)
print('rechecked', kept, 'seeds; patch no longer applies:', na, '; detection LOST:', lost)
