#!/bin/bash
# reseed_parallel.sh [workers] [id-regex] : re-run every filed seeded change against the CURRENT tree in <workers> parallel sandboxes
# (each a git worktree of /repo HEAD plus a git worktree of /verif HEAD with its own build directory, all under /tmp/reseed), so /repo itself is
# never touched.  For each seed the checks that detected it before (or its own property's check) are run; results go to /tmp/reseed/results/<id>.json
# and are merged into seeded/<id>/meta.json by tools/reseed_merge.py.  Scratch is removed at the end.
W=${1:-4}; ROOT=${RESEED_ROOT:-/tmp/reseed}; rm -rf $ROOT; mkdir -p $ROOT/results
ls /verif/seeded | grep -E "${2:-.}" > $ROOT/all.txt
for i in $(seq 0 $((W-1))); do
  git -C /repo worktree add --detach $ROOT/repo$i HEAD >/dev/null 2>&1
  git -C /verif worktree add --detach $ROOT/verif$i HEAD >/dev/null 2>&1
  ( cd $ROOT/verif$i
    export VERIF_REPO=$ROOT/repo$i VERIF_JOBS=$((16/W)) VERIF_NO_EVIDENCE=1
    python3 check.py setup >/dev/null 2>&1
    awk -v n=$W -v i=$i 'NR % n == i' $ROOT/all.txt | while read id; do
      P=/verif/seeded/$id/patch.diff
      checks=$(python3 -c "
import json
m=json.load(open('/verif/seeded/$id/meta.json'))
c=[x for x in m.get('detected_by',[]) if x.startswith('C')] or [m.get('property','')]
print(' '.join(sorted(set(c))))")
      if git -C $ROOT/repo$i apply "$P" 2>/dev/null || git -C $ROOT/repo$i apply --3way "$P" 2>/dev/null || patch -d $ROOT/repo$i -p1 --no-backup-if-mismatch -s < "$P" 2>/dev/null; then
        git -C $ROOT/repo$i reset -q 2>/dev/null
        res="{"
        for c in $checks; do
          out=$(python3 check.py $c --tier quick 2>&1)
          n=$(echo "$out" | grep -c "^VIOLATION")
          inc=$(echo "$out" | grep -c "INCONCLUSIVE\|HARNESS")
          keys=$(echo "$out" | grep "^VIOLATION" | sed 's/.*key=//' | head -5 | python3 -c "import sys,json;print(json.dumps([l.strip() for l in sys.stdin]))")
          res="$res\"$c\":{\"violations\":$n,\"inconclusive\":$inc,\"keys\":$keys},"
        done
        echo "${res%,}}" > $ROOT/results/$id.json
      else
        echo '{"_patch":"does not apply to the current tree"}' > $ROOT/results/$id.json
      fi
      git -C $ROOT/repo$i checkout -q -- . 2>/dev/null; git -C $ROOT/repo$i clean -fdq 2>/dev/null
      echo "$id done" >> $ROOT/progress.txt
    done ) &
done
wait
python3 /verif/tools/reseed_merge.py $ROOT/results
for i in $(seq 0 $((W-1))); do git -C /repo worktree remove --force $ROOT/repo$i; git -C /verif worktree remove --force $ROOT/verif$i; done
git -C /repo worktree prune; git -C /verif worktree prune
