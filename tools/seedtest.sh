#!/bin/bash
# seedtest.sh <patch.diff> <Cxx> [<Cxx> ...] : apply a seeded change to /repo, run the quick checks, always revert.
P=$1; shift
git -C /repo apply "$P" || exit 2
trap 'git -C /repo checkout -- .' EXIT
for c in "$@"; do
  out=$(cd /verif && VERIF_NO_EVIDENCE=1 python3 check.py $c --tier ${TIER:-quick} 2>&1)
  n=$(echo "$out" | grep -c "^VIOLATION")
  echo "== $c: exit-violations=$n"; echo "$out" | grep "^VIOLATION\|INCONCLUSIVE\|HARNESS" | cut -c1-260 | head -8
done
