#!/bin/bash
# seedtest.sh <patch.diff> <Cxx> [<Cxx> ...] : apply a seeded change to /repo, run the quick checks, always revert.
P=$1; shift
git -C /repo apply "$P" 2>/dev/null || git -C /repo apply --3way "$P" 2>/dev/null || patch -d /repo -p1 --no-backup-if-mismatch -s < "$P" || { echo "SEEDTEST: patch does not apply to /repo"; git -C /repo checkout -- . ; exit 2; }
git -C /repo reset -q 2>/dev/null
trap 'git -C /repo checkout -- .' EXIT
for c in "$@"; do
  out=$(cd /verif && VERIF_NO_EVIDENCE=1 python3 check.py $c --tier ${TIER:-quick} 2>&1)
  n=$(echo "$out" | grep -c "^VIOLATION")
  echo "== $c: exit-violations=$n"; echo "$out" | grep "^VIOLATION\|INCONCLUSIVE\|HARNESS" | cut -c1-260 | head -8
done
