#!/bin/bash
# suite.sh : the repository's own test suite (guard off) on /repo's current tree, in a scratch build directory outside /repo and /verif
B=/tmp/suite_build.$$
cmake -G Ninja -S /repo -B $B -DCMAKE_BUILD_TYPE=RelWithDebInfo >/dev/null 2>&1 && cmake --build $B >/dev/null 2>&1 || { echo "suite: build failed"; rm -rf $B; exit 2; }
ctest --test-dir $B -j16 --timeout 900 2>&1 | grep "tests passed\|Failed\|\*\*\*"
rm -rf $B
